//! Panic capture: a silent hook records `file:line` and message; `guard` turns a panic into a value.

use std::cell::RefCell;
use std::panic::{catch_unwind, AssertUnwindSafe};

#[derive(Debug, Clone, PartialEq)]
pub struct PanicInfo {
    pub location: String,
    pub message: String,
}

thread_local! {
    static LAST: RefCell<Option<PanicInfo>> = const { RefCell::new(None) };
}

pub fn install_hook() {
    std::panic::set_hook(Box::new(|info| {
        let location = info
            .location()
            .map(|l| format!("{}:{}", l.file(), l.line()))
            .unwrap_or_else(|| "?".to_string());
        let message = if let Some(s) = info.payload().downcast_ref::<&str>() {
            (*s).to_string()
        } else if let Some(s) = info.payload().downcast_ref::<String>() {
            s.clone()
        } else {
            "<non-string payload>".to_string()
        };
        LAST.with(|l| *l.borrow_mut() = Some(PanicInfo { location, message }));
    }));
}

pub fn guard<R>(f: impl FnOnce() -> R) -> Result<R, PanicInfo> {
    match catch_unwind(AssertUnwindSafe(f)) {
        Ok(r) => Ok(r),
        Err(_) => Err(LAST.with(|l| l.borrow_mut().take()).unwrap_or(PanicInfo {
            location: "?".into(),
            message: "?".into(),
        })),
    }
}

impl PanicInfo {
    /// location with the repo prefix stripped and the message shortened, stable across runs
    pub fn sig(&self) -> String {
        let loc = self.location.replace("/repo/", "");
        let loc = match loc.find("/rustc/") {
            Some(_) => {
                // std location: keep only library/… part
                match loc.find("library/") {
                    Some(i) => loc[i..].to_string(),
                    None => loc,
                }
            }
            None => loc,
        };
        // numbers in messages (indices, lengths) vary with the input: normalise, then shorten
        let mut msg: String = self.message.chars().map(|c| if c.is_ascii_digit() { '#' } else { c }).collect();
        while msg.contains("##") {
            msg = msg.replace("##", "#");
        }
        let msg: String = msg.chars().take(48).collect();
        format!("{loc}:{msg}")
    }
}
