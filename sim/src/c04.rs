//! C04: decoders never panic, hang or over-read (DESIGN 5.C04). Wire simulation with faults ON.
//! The UPER scenario generator is shared with C19 (build skew), which only records outcomes.

use crate::alloc;
use crate::choices::Lane;
use crate::engine::*;
use crate::faults::*;
use crate::gen::GenCfg;
use crate::guard::guard;
use crate::io::*;
use crate::trace::TraceBits;
use crate::tree::Fnv;
use crate::wire::*;
use crate::zoo::*;
use asn1rs::prelude::*;

pub static DDE_DESCRIPTIONS: std::sync::atomic::AtomicU64 = std::sync::atomic::AtomicU64::new(0);

pub const ALLOC_BASE: usize = 32 << 20;
pub const ALLOC_PER_INPUT_BYTE: usize = 32768;

pub fn run(ctx: &mut RunCtx<'_>) -> Option<Violation> {
    let family = ctx.ch.draw(0, 10);
    match family {
        0..=6 => run_uper(ctx, false),
        7 | 8 => run_proto(ctx),
        _ => run_der(ctx),
    }
}

#[derive(Debug, Clone, PartialEq)]
enum Out {
    Ok(u64),
    Err(String),
    Panic(String),
}

#[derive(Debug, Clone)]
struct Attempt {
    out: Out,
    pos: usize,
    len: usize,
    largest_alloc: usize,
    peak_alloc: usize,
    remaining_panicked: Option<String>,
}

/// decodes `plan` (type per message) from one delivery; stops after the first non-Ok plus `extra`
/// further reads on the same reader (D: decode-after-failure)
/// Decided per run from the tape (workers are single threaded): decode the whole plan on ONE long-lived
/// reader - what a caller does who reads message after message, also after a failed read - instead of
/// rebuilding the reader from its bits after every message. Only a long-lived reader carries its scope
/// from one read to the next (a scope left behind by a failed read is invisible otherwise); only the
/// rebuilt one shows the position and length of the underlying bits exactly. Both halves are needed.
static KEEP_READER: std::sync::atomic::AtomicBool = std::sync::atomic::AtomicBool::new(false);

fn decode_stream(bytes: &[u8], bit_len: usize, plan: &[usize], extra_after_failure: usize) -> Vec<Attempt> {
    let keep = KEEP_READER.load(std::sync::atomic::Ordering::Relaxed);
    let declared = bit_len.min(bytes.len() * 8);
    let z = zoo();
    let mut res = Vec::new();
    let bits = Bits::from((bytes, bit_len.min(bytes.len() * 8)));
    let mut reader = UperReader::from(bits);
    let mut failures = 0;
    for ty in plan {
        let ops = &z.types[*ty];
        let m = alloc::mark();
        let r = guard(|| (ops.uper_read)(&mut reader));
        let u = alloc::usage(m);
        let out = match r {
            Ok(Ok(v)) => Out::Ok((ops.tree)(&v).hash()),
            Ok(Err(e)) => {
                let mut h = Fnv::new();
                h.str(&kind_full(e.kind()));
                #[cfg(feature = "dde")]
                {
                    // informational: with the feature on, an Err from Reader::read carries a description
                    if !e.scope_description().is_empty() {
                        DDE_DESCRIPTIONS.fetch_add(1, std::sync::atomic::Ordering::Relaxed);
                    }
                }
                Out::Err(format!("{}#{:08x}", kind_name(e.kind()), h.0 as u32))
            }
            Err(pi) => Out::Panic(pi.sig()),
        };
        // O5: accessors stay callable
        let remaining = guard(|| reader.bits_remaining());
        let remaining_panicked = match &remaining {
            Ok(_) => None,
            Err(pi) => Some(pi.sig()),
        };
        let (pos, len) = if keep {
            // observed through the accessor only
            (declared.saturating_sub(remaining.unwrap_or(0)), declared)
        } else {
            let bits = reader.into_bits();
            let (pos, len) = (bits.pos(), bits.len());
            reader = UperReader::from(bits);
            (pos, len)
        };
        let failed = !matches!(out, Out::Ok(_));
        res.push(Attempt { out, pos, len, largest_alloc: u.largest, peak_alloc: u.peak_above_mark, remaining_panicked });
        if failed {
            failures += 1;
            if failures > extra_after_failure {
                break;
            }
        }
    }
    res
}

struct Stream {
    prod: Producer,
    types: Vec<usize>,
}

fn build_stream(ctx: &mut RunCtx<'_>, lane: usize, k: usize, cfg: GenCfg, types: &[usize], is_lifted: &dyn Fn(&str) -> bool) -> Stream {
    let z = zoo();
    let mut prod = Producer::new();
    let mut tys = Vec::new();
    let mut attempts = 0;
    while tys.len() < k && attempts < k * 4 {
        attempts += 1;
        let ty = types[ctx.ch.draw(lane, types.len() as u64) as usize];
        let ops = &z.types[ty];
        let (val, _) = (ops.gen)(Lane::new(ctx.ch, lane), cfg);
        let tree = (ops.tree)(&val);
        let class = classify(&tree);
        if in_known_broken_domain(&class, is_lifted).is_some() {
            ctx.counters.inc("known.D5-D6.redirected_draws");
            continue;
        }
        if maybe_in_d7_domain(&class, is_lifted) {
            ctx.counters.inc("known.D7.redirected_draws");
            continue;
        }
        // encode on a scratch writer first: a failed write would leave partial bits in the stream
        let mut scratch = UperWriter::default();
        match guard(|| (ops.uper_write)(&val, &mut scratch)) {
            Ok(Ok(())) => {}
            _ => {
                ctx.counters.inc("c04.encode_refused");
                continue;
            }
        }
        match append(ctx, &mut prod, ty, val, tree) {
            AppendOutcome::Ok => tys.push(ty),
            _ => {
                // cannot happen after the scratch encode succeeded, but never trust: restart the stream
                ctx.counters.inc("c04.append_failed_after_scratch_ok");
                prod = Producer::new();
                tys.clear();
            }
        }
    }
    Stream { prod, types: tys }
}

fn with_slack(bytes: &[u8], bit_len: usize, variant: u8) -> Vec<u8> {
    let used = (bit_len + 7) / 8;
    let mut v = bytes[..used.min(bytes.len())].to_vec();
    v.resize(used, 0);
    let fill = if variant == 0 { 0x00 } else { 0xff };
    if bit_len % 8 != 0 {
        let mask = 0xffu8 >> (bit_len % 8);
        let last = v.last_mut().unwrap();
        *last = (*last & !mask) | (fill & mask);
    }
    // the bytes the (possibly truncated) delivery still carries beyond the declared length, then more
    let extra = bytes.len().saturating_sub(used) + 24;
    for i in 0..extra {
        v.push(if variant == 0 { 0x00 } else { 0xff ^ (i as u8 & 1) });
    }
    v
}

/// decodes `plan` from one delivery twice (different slack beyond the declared length) and applies
/// O1, O3, O4, O5 and the exact oracle for messages wholly before `first_affected`.
/// Ok(number of decode attempts) or the violation.
#[allow(clippy::too_many_arguments)]
fn evaluate(ctx: &mut RunCtx<'_>, bytes: &[u8], bit_len: usize, plan: &[usize], first_affected: usize, sent: &[Msg], outcomes_only: bool, log: bool) -> Result<usize, Violation> {
    let z = zoo();
    // decode twice: identical declared content, different slack beyond it (W-SLACK must be invisible)
    let a_bytes = with_slack(bytes, bit_len, 0);
    let b_bytes = with_slack(bytes, bit_len, 1);
    let ra = decode_stream(&a_bytes, bit_len, plan, 1);
    let rb = decode_stream(&b_bytes, bit_len, plan, 1);
    let input_bytes = (bit_len + 7) / 8;
    let budget = ALLOC_BASE + ALLOC_PER_INPUT_BYTE * input_bytes;

    let mut seen_failure = false;
    for (i, at) in ra.iter().enumerate() {
        let ops = &z.types[plan[i]];
        let digest = match &at.out {
            Out::Ok(h) => *h,
            // (for C19 the error payload is not compared between the builds: kind only)
            Out::Err(e) => crate::choices::fnv1a(if outcomes_only { e.split('#').next().unwrap_or(e).as_bytes() } else { e.as_bytes() }),
            Out::Panic(p) => crate::choices::fnv1a(p.as_bytes()) ^ 1,
        };
        if log {
            ctx.log.ev("C1", "read", crate::choices::mix(digest, at.pos as u64), || format!("msg{} {} -> {:?} pos={} len={}", i, ops.name, at.out, at.pos, at.len));
        }
        if let Some(o) = &mut ctx.outcomes {
            // C19 compares: Ok + value hash, or the error KIND (variant; the payload is not part of the
            // property's statement), or the panic site; the position; whether bits_remaining() panicked
            let shown = match &at.out {
                Out::Err(e) => format!("Err(\"{}\")", e.split('#').next().unwrap_or(e)),
                other => format!("{:?}", other),
            };
            o.push(format!("{} {} {} pos={} len={} rem_panic={:?}", i, ops.name, shown, at.pos, at.len, at.remaining_panicked));
        }
        if outcomes_only {
            ctx.counters.inc(match &at.out {
                Out::Ok(_) => "c19.read_ok",
                Out::Err(_) => "c19.read_err",
                Out::Panic(_) => "c19.read_panic",
            });
            continue;
        }
        ctx.counters.inc(match &at.out {
            Out::Ok(_) => "c04.uper.read_ok",
            Out::Err(_) => "c04.uper.read_err",
            Out::Panic(_) => "c04.uper.read_panic",
        });
        ctx.counters.max("max.c04.largest_single_alloc", at.largest_alloc as u64);
        ctx.counters.max("max.c04.peak_alloc_in_read", at.peak_alloc as u64);
        let after_failure = seen_failure;
        // O1 no panic
        if let Out::Panic(sig) = &at.out {
            if after_failure {
                ctx.counters.inc("diag.C04.panic_in_read_after_failed_read");
                ctx.counters.inc(&format!("diag.C04.panic_after_failure@{sig}"));
            } else {
                return Err(Violation {
                    signature: format!("C04/O1-panic/uper/{sig}"),
                    detail: format!("UperReader::read::<{}> panicked on a corrupted delivery ({} bits): {}", ops.name, bit_len, sig),
                });
            }
        }
        if !after_failure {
            // O3 allocation budget
            if at.largest_alloc > budget || at.peak_alloc > budget {
                return Err(Violation {
                    signature: format!("C04/O3-alloc-budget/uper/type={}", ops.name),
                    detail: format!("reading {} from {} input bytes requested {} bytes at once / {} bytes live (budget {} = 32 MiB + 32768 x input bytes)", ops.name, input_bytes, at.largest_alloc, at.peak_alloc, budget),
                });
            }
            // O4 no success past the declared length
            if matches!(at.out, Out::Ok(_)) && at.pos > at.len {
                return Err(Violation {
                    signature: "C04/O4-success-past-declared-length".to_string(),
                    detail: format!("read::<{}> returned Ok with pos={} > declared len={}", ops.name, at.pos, at.len),
                });
            }
            // O5 accessors callable after a failed read
            if let (Some(sig), false) = (&at.remaining_panicked, matches!(at.out, Out::Ok(_))) {
                return Err(Violation {
                    signature: format!("C04/O5-bits_remaining-panics-after-failed-read/{sig}"),
                    detail: format!("bits_remaining() panicked after read::<{}> returned {:?} (pos={} len={})", ops.name, at.out, at.pos, at.len),
                });
            }
            if let (Some(sig), true) = (&at.remaining_panicked, matches!(at.out, Out::Ok(_))) {
                // only possible with pos > len, reported above; keep as diagnostic otherwise
                ctx.counters.inc(&format!("diag.C04.bits_remaining_panicked_after_ok@{sig}"));
            }
            // O4b slack independence
            if let Some(bt) = rb.get(i) {
                let differs = at.out != bt.out || at.pos != bt.pos;
                if differs && (matches!(at.out, Out::Ok(_)) || matches!(bt.out, Out::Ok(_))) {
                    return Err(Violation {
                        signature: "C04/O4-slack-dependent-success".to_string(),
                        detail: format!("read::<{}> on the same declared {} bits gives {:?} pos={} with zero slack but {:?} pos={} with other slack: a success consumed bits beyond the declared length", ops.name, bit_len, at.out, at.pos, bt.out, bt.pos),
                    });
                } else if differs {
                    ctx.counters.inc("diag.C04.slack_dependent_error");
                }
            }
            // exact oracle for messages before the first affected bit
            if let Some(m) = sent.get(i) {
                let pos_before = if i == 0 { 0 } else { ra[i - 1].pos };
                if m.end <= first_affected && m.ty == plan[i] && pos_before == m.start {
                    let ok = matches!(&at.out, Out::Ok(h) if *h == m.tree.hash()) && at.pos == m.end;
                    if !ok {
                        return Err(Violation {
                            signature: "C04/unaffected-prefix-not-exact".to_string(),
                            detail: format!("message {} ({}) ends at bit {} before the first affected bit {} but decoded as {:?} pos={}", i, ops.name, m.end, first_affected, at.out, at.pos),
                        });
                    }
                    ctx.counters.inc("c04.unaffected_prefix_exact");
                }
            }
        }
        if !matches!(at.out, Out::Ok(_)) {
            seen_failure = true;
            ctx.counters.inc("probe.read_failed_then_accessors_called");
        }
    }
    Ok(ra.len())
}

pub fn run_uper(ctx: &mut RunCtx<'_>, outcomes_only: bool) -> Option<Violation> {
    let z = zoo();
    let lifted: Vec<String> = ctx.lifted.to_vec();
    let is_lifted = move |f: &str| lifted.iter().any(|l| l == f || l == "all");
    let types: Vec<usize> = z.without_flag(F_ZEROAMP);

    let (k, cfg, nfaults, enabled, xtype) = {
        let mut l0 = Lane::new(ctx.ch, 0);
        let k = 1 + l0.draw(4) as usize;
        let mut cfg = draw_gen_cfg(&mut l0, &is_lifted, false);
        cfg.valid = l0.draw(5) != 0;
        if cfg.size_class == 2 && l0.draw(3) != 0 {
            cfg.size_class = 1; // big messages are rare here: faults need many runs, not long ones
        }
        // C19 also wants fault-free deliveries
        let nfaults = if outcomes_only && l0.draw(4) == 0 { 0 } else { 1 + l0.draw(3) as usize };
        let enabled = draw_enabled(&mut l0, WIRE_KINDS);
        let xtype = l0.draw(8) == 0;
        KEEP_READER.store(l0.draw(2) == 0, std::sync::atomic::Ordering::Relaxed);
        (k, cfg, nfaults, enabled, xtype)
    };
    ctx.counters.inc(if KEEP_READER.load(std::sync::atomic::Ordering::Relaxed) { "c04.reader.one_long_lived_reader" } else { "c04.reader.rebuilt_after_every_message" });
    let stream = build_stream(ctx, 1, k, cfg, &types, &is_lifted);
    if stream.types.is_empty() && ctx.ch.draw(0, 2) == 0 {
        // nothing encodable drawn: still exercise the readers on random bytes below
    }
    let clean_bytes = stream.prod.good.clone();
    let clean_len = stream.prod.good_bits;
    let mut plan: Vec<usize> = stream.types.clone();
    if plan.is_empty() {
        plan.push(types[ctx.ch.draw(1, types.len() as u64) as usize]);
    }

    // clean tracing pass: where are the structurally interesting bits?
    let mut targets: Vec<(usize, usize)> = Vec::new();
    if !stream.types.is_empty() {
        let (tb, trace) = TraceBits::new(Bits::from((&clean_bytes[..], clean_len)));
        let mut r = UperReader::from(tb);
        for ty in &stream.types {
            if !matches!(guard(|| (z.types[*ty].uper_read_traced)(&mut r)), Ok(Ok(_))) {
                break;
            }
        }
        let t = trace.borrow();
        for (s, n) in &t.reads {
            if *n <= 16 && *n > 0 {
                targets.push((*s, *n));
            }
        }
        if targets.len() > 256 {
            targets.truncate(256);
        }
        ctx.counters.add("c04.trace_short_reads", targets.len() as u64);
    }

    // a second stream for W-SPLICE
    let other = if enabled.contains(&"W-SPLICE") {
        let s2 = build_stream(ctx, 2, 1 + (k % 2), cfg, &types, &is_lifted);
        Some((s2.prod.good.clone(), s2.prod.good_bits))
    } else {
        None
    };

    // fault process
    let mut bytes = clean_bytes.clone();
    let mut bit_len = clean_len;
    let mut first_affected = usize::MAX;
    let mut applied: Vec<Applied> = Vec::new();
    {
        let mut l0 = Lane::new(ctx.ch, 0);
        for _ in 0..nfaults {
            let kind = enabled[l0.draw(enabled.len() as u64) as usize];
            let o = other.as_ref().map(|(b, l)| (&b[..], *l));
            if let Some(a) = apply_bits(kind, &mut bytes, &mut bit_len, &mut l0, &targets, o) {
                first_affected = first_affected.min(a.first_bit);
                applied.push(a);
            }
        }
    }
    for a in &applied {
        count(ctx.counters, a);
    }
    if xtype && !plan.is_empty() {
        let j = ctx.ch.draw(0, plan.len() as u64) as usize;
        // half of the cross-type decodes of a version-chain type are VERSION skew: the receiver runs another
        // version of the sender's schema (unknown additions to skip, additions missing), which a uniformly
        // drawn other type practically never is
        let same_role = crate::c05::chains().roles.iter().map(|(_, v)| v).find(|v| v.contains(&plan[j]));
        let (nt, kind) = match same_role {
            Some(vs) if ctx.ch.draw(0, 2) == 0 => (vs[ctx.ch.draw(0, vs.len() as u64) as usize], "W-XVERSION"),
            _ => (types[ctx.ch.draw(0, types.len() as u64) as usize], "W-XTYPE"),
        };
        if nt != plan[j] {
            let start = stream.prod.stream.get(j).map(|m| m.start).unwrap_or(0);
            first_affected = first_affected.min(start);
            ctx.counters.inc(if kind == "W-XVERSION" { "fault.W-XVERSION" } else { "fault.W-XTYPE" });
            ctx.note(|| format!("{kind}: message {j} decoded as {} instead of {}", z.types[nt].name, z.types[plan[j]].name));
            plan[j] = nt;
        }
    }
    if ctx.recording() {
        let msgs: Vec<String> = stream.prod.stream.iter().map(|m| format!("{} {} bits {}..{}", z.types[m.ty].name, m.tree.render(), m.start, m.end)).collect();
        ctx.note(|| format!("messages: {:?}", msgs));
        ctx.note(|| format!("delivery_before: {} /{}", hex(&clean_bytes), clean_len));
        let f: Vec<String> = applied.iter().map(|a| format!("{}: {}", a.kind, a.text)).collect();
        ctx.note(|| format!("faults: {:?}", f));
        ctx.note(|| format!("delivery_after: {} /{}", hex(&bytes), bit_len));
        let p: Vec<&str> = plan.iter().map(|t| z.types[*t].name).collect();
        ctx.note(|| format!("decode plan: {:?}", p));
    }
    ctx.log.ev("W1", "deliver", crate::choices::mix(crate::choices::fnv1a(&bytes), bit_len as u64), || format!("{} faults, {} bits", applied.len(), bit_len));

    let ra_len = match evaluate(ctx, &bytes, bit_len, &plan, first_affected, &stream.prod.stream, outcomes_only, true) {
        Ok(n) => n,
        Err(v) => return Some(v),
    };
    // fault-point enumeration (exhaustive over fault position for this stream): every declared
    // length, every single bit flip, every single byte deletion of the CLEAN delivery
    let enumerate = !outcomes_only && !stream.types.is_empty() && clean_len <= 1024 && ctx.ch.draw(0, if ctx.tier == Tier::Thorough { 25 } else { 400 }) == 0;
    if enumerate {
        let clean_plan: Vec<usize> = stream.types.clone();
        let mut points = 0u64;
        for l in 0..=clean_len {
            points += 1;
            if let Err(mut v) = evaluate(ctx, &clean_bytes, l, &clean_plan, l, &stream.prod.stream, false, false) {
                v.detail = format!("[fault-point enumeration: declared length {l} of {clean_len}] {}", v.detail);
                return Some(v);
            }
        }
        ctx.counters.add("fault.W-TRUNC-LEN", clean_len as u64 + 1);
        for i in 0..clean_len {
            let mut b = clean_bytes.clone();
            b[i / 8] ^= 0x80 >> (i % 8);
            points += 1;
            if let Err(mut v) = evaluate(ctx, &b, clean_len, &clean_plan, i, &stream.prod.stream, false, false) {
                v.detail = format!("[fault-point enumeration: bit {i} of {clean_len} flipped] {}", v.detail);
                return Some(v);
            }
        }
        ctx.counters.add("fault.W-FLIP", clean_len as u64);
        for k in 0..clean_bytes.len() {
            let mut b = clean_bytes.clone();
            b.remove(k);
            let nl = clean_len.saturating_sub(8).min(b.len() * 8);
            points += 1;
            if let Err(mut v) = evaluate(ctx, &b, nl, &clean_plan, (k * 8).min(nl), &stream.prod.stream, false, false) {
                v.detail = format!("[fault-point enumeration: byte {k} deleted] {}", v.detail);
                return Some(v);
            }
        }
        ctx.counters.add("fault.W-DEL", clean_bytes.len() as u64);
        ctx.counters.inc("probe.fault_point_enumeration_streams");
        ctx.counters.add("c04.enumerated_fault_points", points);
    }
    ctx.nontrivial = !applied.is_empty() || xtype;
    if outcomes_only {
        ctx.nontrivial = ra_len > 0;
        ctx.counters.inc(if cfg!(feature = "dde") { "build.descriptive-deserialize-errors=on" } else { "build.descriptive-deserialize-errors=off" });
        // the injected "fault" of C19 is the configuration: the same history runs in a differently built process
        ctx.counters.inc("fault.CFG-BUILD-SKEW.history-executed-in-this-build");
        let d = DDE_DESCRIPTIONS.swap(0, std::sync::atomic::Ordering::Relaxed);
        ctx.counters.add("probe.dde_error_carries_description", d);
        if applied.is_empty() && !xtype {
            ctx.counters.inc("probe.fault_free_delivery_compared");
        }
    }
    if applied.iter().any(|a| a.kind == "W-TRUNC-LEN" || a.kind == "W-TRUNC-BYTES") {
        ctx.counters.inc("probe.truncated_delivery");
    }
    None
}

// ------------------------------------------------------------------------------------------------
// protobuf family

pub fn run_proto(ctx: &mut RunCtx<'_>) -> Option<Violation> {
    let z = zoo();
    let lifted: Vec<String> = ctx.lifted.to_vec();
    let is_lifted = move |f: &str| lifted.iter().any(|l| l == f || l == "all");
    // D11 (open known finding): ProtobufReader never terminates for a type with a list directly in a list
    let types: Vec<usize> = z.with_flag(F_PROTO).into_iter().filter(|t| is_lifted("D11c") || z.types[*t].flags & F_NESTED_LIST == 0).collect();
    let (cfg, nfaults, enabled, xtype) = {
        let mut l0 = Lane::new(ctx.ch, 0);
        let mut cfg = draw_gen_cfg(&mut l0, &is_lifted, true);
        if cfg.size_class == 2 {
            cfg.size_class = 1;
        }
        (cfg, 1 + l0.draw(3) as usize, draw_enabled(&mut l0, BYTE_KINDS), l0.draw(6) == 0)
    };
    let ty = types[ctx.ch.draw(1, types.len() as u64) as usize];
    let ops = &z.types[ty];
    let (val, _) = (ops.gen)(Lane::new(ctx.ch, 1), cfg);
    let mut w = ProtobufWriter::default();
    let enc = guard(|| (ops.proto_write)(&val, &mut w));
    let mut bytes = match enc {
        Ok(Ok(())) => w.into_bytes_vec(),
        _ => {
            ctx.counters.inc("c04.proto.encode_refused");
            Vec::new()
        }
    };
    let clean = bytes.clone();
    let mut applied = Vec::new();
    {
        let mut l0 = Lane::new(ctx.ch, 0);
        for _ in 0..nfaults {
            let kind = enabled[l0.draw(enabled.len() as u64) as usize];
            if let Some(a) = apply_bytes(kind, &mut bytes, &mut l0) {
                applied.push(a);
            }
        }
    }
    for a in &applied {
        count(ctx.counters, a);
    }
    let rty = if xtype { types[ctx.ch.draw(0, types.len() as u64) as usize] } else { ty };
    if rty != ty {
        ctx.counters.inc("fault.W-XTYPE");
    }
    let rops = &z.types[rty];
    ctx.note(|| format!("protobuf: sent {} {} = {}", ops.name, (ops.tree)(&val).render(), hex(&clean)));
    ctx.note(|| format!("faults: {:?}; decoded as {} from {}", applied.iter().map(|a| format!("{}: {}", a.kind, a.text)).collect::<Vec<_>>(), rops.name, hex(&bytes)));
    ctx.log.ev("W1", "proto-deliver", crate::choices::fnv1a(&bytes), || format!("{} bytes for {}", bytes.len(), rops.name));
    if is_lifted("dry-no-read") {
        // harness aid: lets `sim tape` obtain the tape of a run whose consumer would hang
        return None;
    }
    let m = alloc::mark();
    let r = guard(|| {
        let mut reader = ProtobufReader::from(&bytes[..]);
        (rops.proto_read)(&mut reader)
    });
    let u = alloc::usage(m);
    ctx.counters.max("max.c04.proto.largest_single_alloc", u.largest as u64);
    let budget = ALLOC_BASE + ALLOC_PER_INPUT_BYTE * bytes.len();
    ctx.nontrivial = !applied.is_empty();
    match r {
        Err(pi) => {
            ctx.log.ev("C1", "proto-read", 1, || format!("{} -> panic {}", rops.name, pi.sig()));
            Some(Violation {
                signature: format!("C04/O1-panic/protobuf/{}", pi.sig()),
                detail: format!("ProtobufReader::read::<{}> panicked on {} corrupted bytes: {} ({})", rops.name, bytes.len(), pi.message, pi.location),
            })
        }
        Ok(res) => {
            let ok = res.is_ok();
            ctx.counters.inc(if ok { "c04.proto.read_ok" } else { "c04.proto.read_err" });
            ctx.log.ev("C1", "proto-read", ok as u64 + 2, || format!("{} -> {}", rops.name, if ok { "Ok" } else { "Err" }));
            if u.largest > budget || u.peak_above_mark > budget {
                return Some(Violation {
                    signature: format!("C04/O3-alloc-budget/protobuf/type={}", rops.name),
                    detail: format!("reading {} from {} bytes requested {} bytes at once / {} live", rops.name, bytes.len(), u.largest, u.peak_above_mark),
                });
            }
            None
        }
    }
}

// ------------------------------------------------------------------------------------------------
// DER family

pub fn run_der(ctx: &mut RunCtx<'_>) -> Option<Violation> {
    let z = zoo();
    let types = z.with_flag(F_DER);
    let (k, nfaults, enabled, io_mode) = {
        let mut l0 = Lane::new(ctx.ch, 0);
        (1 + l0.draw(4) as usize, l0.draw(3) as usize, draw_enabled(&mut l0, BYTE_KINDS), l0.draw(4))
    };
    let cfg = GenCfg::small_valid();
    // producer: k items into one benign pipe
    let mut sink = FaultyWrite::new(IoPlan::default());
    let mut plan = Vec::new();
    for _ in 0..k {
        let ty = types[ctx.ch.draw(1, types.len() as u64) as usize];
        let ops = &z.types[ty];
        let (val, _) = (ops.gen)(Lane::new(ctx.ch, 1), cfg);
        let r = guard(|| {
            let mut w = BasicWriter::from(&mut sink);
            (ops.der_write)(&val, &mut w)
        });
        if matches!(r, Ok(Ok(()))) {
            plan.push(ty);
        } else {
            ctx.counters.inc("c04.der.encode_refused");
        }
    }
    let mut bytes = sink.sink.clone();
    let clean = bytes.clone();
    let mut applied = Vec::new();
    {
        let mut l0 = Lane::new(ctx.ch, 0);
        for _ in 0..nfaults {
            let kind = enabled[l0.draw(enabled.len() as u64) as usize];
            if let Some(a) = apply_bytes(kind, &mut bytes, &mut l0) {
                applied.push(a);
            }
        }
    }
    for a in &applied {
        count(ctx.counters, a);
    }
    if plan.is_empty() {
        plan.push(types[ctx.ch.draw(1, types.len() as u64) as usize]);
    }
    // I/O behaviour under the reader: legal non-failing (short/EINTR), EOF@k (a truncated byte
    // string), or a hard error (outside "for every byte string": diagnostics only)
    let mut ioplan = IoPlan::benign(&mut Lane::new(ctx.ch, 0));
    let mut hard = false;
    match io_mode {
        1 => {
            let k = ctx.ch.draw(0, bytes.len() as u64 + 1) as usize;
            ioplan.eof_at = Some(k);
            ctx.counters.inc("fault.IO-EOF@k");
        }
        2 => {
            let k = ctx.ch.draw(0, bytes.len() as u64 + 1) as usize;
            let kind = hard_error_kind(&mut Lane::new(ctx.ch, 0));
            ioplan.err_at = Some((k, kind));
            hard = true;
            ctx.counters.inc("fault.IO-ERR@k");
        }
        _ => {}
    }
    ctx.note(|| format!("DER stream {} -> {} faults {:?} io {}", hex(&clean), hex(&bytes), applied.iter().map(|a| format!("{}: {}", a.kind, a.text)).collect::<Vec<_>>(), ioplan.describe()));
    let mut src = FaultyRead::new(bytes.clone(), ioplan);
    let budget = ALLOC_BASE + ALLOC_PER_INPUT_BYTE * bytes.len();
    for (i, ty) in plan.iter().enumerate() {
        let ops = &z.types[*ty];
        let m = alloc::mark();
        let r = guard(|| {
            let mut rd = BasicReader::from(&mut src);
            (ops.der_read)(&mut rd)
        });
        let u = alloc::usage(m);
        match r {
            Err(pi) => {
                ctx.log.ev("C1", "der-read", 1, || format!("item{} {} -> panic {}", i, ops.name, pi.sig()));
                if hard {
                    ctx.counters.inc(&format!("diag.C04.der_panic_under_hard_io_error@{}", pi.sig()));
                    return None;
                }
                return Some(Violation {
                    signature: format!("C04/O1-panic/der/{}", pi.sig()),
                    detail: format!("DER reader panicked reading {}: {} ({})", ops.name, pi.message, pi.location),
                });
            }
            Ok(res) => {
                let ok = res.is_ok();
                ctx.counters.inc(if ok { "c04.der.read_ok" } else { "c04.der.read_err" });
                ctx.log.ev("C1", "der-read", ok as u64 + 2, || format!("item{} {} -> {}", i, ops.name, if ok { "Ok" } else { "Err" }));
                if u.largest > budget {
                    return Some(Violation {
                        signature: format!("C04/O3-alloc-budget/der/type={}", ops.name),
                        detail: format!("reading {} requested {} bytes at once", ops.name, u.largest),
                    });
                }
                if !ok {
                    break;
                }
            }
        }
    }
    ctx.counters.add("io.read_calls", src.stats.calls);
    ctx.counters.add("fault.IO-SHORT", src.stats.short);
    ctx.counters.add("fault.IO-EINTR", src.stats.eintr);
    if src.stats.eintr > 0 {
        ctx.counters.inc("probe.EINTR_retried");
    }
    ctx.nontrivial = !applied.is_empty() || io_mode == 1 || io_mode == 2 || src.stats.short > 0 || src.stats.eintr > 0;
    None
}
