//! C20: DER primitives round trip (DESIGN 5.C20). The code under the property *is* blanket impls over
//! `std::io::{Read, Write}`: the simulator owns those objects (short transfers, EINTR, crash@k, EOF@k).

use crate::choices::Lane;
use crate::engine::*;
use crate::gen::GenCfg;
use crate::guard::guard;
use crate::io::*;
use crate::zoo::*;
use asn1rs::model::asn::Tag;
use asn1rs::prelude::*;
use asn1rs::protocol::basic::{BasicRead, BasicWrite};

#[derive(Debug, Clone, PartialEq)]
enum Item {
    Identifier(Tag),
    Length(u64),
    Boolean(bool),
    I64(i64),
    U64(u64),
    /// typed value of a DER-capable zoo type (index, tree hash)
    Typed(usize),
}

struct Written {
    item: Item,
    start: usize,
    end: usize,
}

fn boundary_u64(l: &mut Lane<'_>) -> u64 {
    match l.draw(8) {
        0 => l.draw(4),
        1 => {
            // around 2^(7k)
            let k = 1 + l.draw(9);
            let base = 1u128 << (7 * k).min(64);
            (base as i128 + l.draw(5) as i128 - 2).clamp(0, u64::MAX as i128) as u64
        }
        2 | 3 => {
            // around 2^(8k)
            let k = 1 + l.draw(8);
            let base = 1u128 << (8 * k).min(64);
            (base as i128 + l.draw(5) as i128 - 2).clamp(0, u64::MAX as i128) as u64
        }
        4 => 126 + l.draw(5),
        5 => u64::MAX - l.draw(3),
        6 => (i64::MAX as u64).wrapping_add(l.draw(5)).wrapping_sub(2),
        _ => l.draw(u64::MAX),
    }
}

fn boundary_i64(l: &mut Lane<'_>) -> i64 {
    match l.draw(8) {
        0 => l.draw(5) as i64 - 2,
        1 => i64::MAX - l.draw(3) as i64,
        2 => i64::MIN + l.draw(3) as i64,
        3 | 4 => {
            let k = l.draw(63);
            let v = (1i64 << k).wrapping_add(l.draw(5) as i64 - 2);
            if l.draw(2) == 0 {
                v
            } else {
                v.wrapping_neg()
            }
        }
        _ => boundary_u64(l) as i64,
    }
}

fn draw_item(l: &mut Lane<'_>, der_types: &[usize]) -> Item {
    match l.draw(8) {
        0 => {
            let n = l.draw(31) as usize;
            Item::Identifier(match l.draw(4) {
                0 => Tag::Universal(n),
                1 => Tag::Application(n),
                2 => Tag::ContextSpecific(n),
                _ => Tag::Private(n),
            })
        }
        1 | 2 => Item::Length(boundary_u64(l)),
        3 => Item::Boolean(l.draw(2) == 1),
        4 => Item::I64(boundary_i64(l)),
        5 => Item::U64(boundary_u64(l)),
        _ => Item::Typed(der_types[l.draw(der_types.len() as u64) as usize]),
    }
}

fn write_item(sink: &mut FaultyWrite, item: &Item, val: Option<&Val>) -> Result<Result<(), String>, crate::guard::PanicInfo> {
    guard(|| {
        let r = match item {
            Item::Identifier(t) => sink.write_identifier(*t),
            Item::Length(v) => sink.write_length(*v),
            Item::Boolean(b) => sink.write_boolean(*b),
            Item::I64(v) => sink.write_integer_i64(*v),
            Item::U64(v) => sink.write_integer_u64(*v),
            Item::Typed(ty) => {
                let mut w = BasicWriter::from(&mut *sink);
                (zoo().types[*ty].der_write)(val.unwrap(), &mut w)
            }
        };
        r.map_err(|e| format!("{:?}", e.kind()))
    })
}

/// reads one item back; Ok(true) = equal
fn read_item(src: &mut FaultyRead, w: &Written, val: Option<&Val>) -> Result<Result<bool, String>, crate::guard::PanicInfo> {
    guard(|| {
        let r: Result<bool, asn1rs::protocol::basic::Error> = match &w.item {
            Item::Identifier(t) => src.read_identifier().map(|g| g == *t),
            Item::Length(v) => src.read_length().map(|g| g == *v),
            Item::Boolean(b) => src.read_boolean().map(|g| g == *b),
            Item::I64(v) => src.read_integer_i64((w.end - w.start) as u32).map(|g| g == *v),
            Item::U64(v) => src.read_integer_u64((w.end - w.start) as u32).map(|g| g == *v),
            Item::Typed(ty) => {
                let mut r = BasicReader::from(&mut *src);
                (zoo().types[*ty].der_read)(&mut r).map(|g| (zoo().types[*ty].eq)(&g, val.unwrap()))
            }
        };
        r.map_err(|e| format!("{:?}", e.kind()))
    })
}

fn describe(item: &Item, val: Option<&Val>) -> String {
    match item {
        Item::Typed(ty) => format!("{} {}", zoo().types[*ty].name, (zoo().types[*ty].tree)(val.unwrap()).render()),
        other => format!("{:?}", other),
    }
}

fn kind_of(item: &Item) -> &'static str {
    match item {
        Item::Identifier(_) => "identifier",
        Item::Length(_) => "length",
        Item::Boolean(_) => "boolean",
        Item::I64(_) => "integer_i64",
        Item::U64(_) => "integer_u64",
        Item::Typed(_) => "typed",
    }
}

/// producer: writes the items into one pipe; returns what was completely written and the outcome of
/// the first failing write (if any)
fn produce(items: &[(Item, Option<Val>)], plan: IoPlan) -> Result<(FaultyWrite, Vec<Written>, Option<(usize, String)>), Violation> {
    let mut sink = FaultyWrite::new(plan);
    let mut written = Vec::new();
    let mut failed = None;
    for (i, (item, val)) in items.iter().enumerate() {
        let start = sink.sink.len();
        match write_item(&mut sink, item, val.as_ref()) {
            Err(pi) => {
                return Err(Violation {
                    signature: format!("C20/panic/write/{}/{}", kind_of(item), pi.sig()),
                    detail: format!("writing {} panicked: {} ({})", describe(item, val.as_ref()), pi.message, pi.location),
                })
            }
            Ok(Ok(())) => {
                let end = sink.sink.len();
                written.push(Written { item: item.clone(), start, end });
            }
            Ok(Err(e)) => {
                failed = Some((i, e));
                break;
            }
        }
    }
    Ok((sink, written, failed))
}

pub fn run(ctx: &mut RunCtx<'_>) -> Option<Violation> {
    let z = zoo();
    let der_types = z.with_flag(F_DER);
    let (k, wplan, rplan, mode) = {
        let mut l0 = Lane::new(ctx.ch, 0);
        let k = 1 + l0.draw(8) as usize;
        let wplan = IoPlan::benign(&mut l0);
        let rplan = IoPlan::benign(&mut l0);
        // 0-5: legal non-failing I/O only; 6: writer crash; 7: reader EOF/error; 8: boolean channel mutation; 9: enumerate fault points
        let mode = l0.draw(10);
        (k, wplan, rplan, mode)
    };
    // items and values
    let mut items: Vec<(Item, Option<Val>)> = Vec::new();
    for _ in 0..k {
        let mut l1 = Lane::new(ctx.ch, 1);
        let item = draw_item(&mut l1, &der_types);
        let val = match &item {
            Item::Typed(ty) => {
                let mut cfg = GenCfg::small_valid();
                cfg.valid = false; // every value of the Rust type
                Some((z.types[*ty].gen)(Lane::new(ctx.ch, 1), cfg).0)
            }
            _ => None,
        };
        items.push((item, val));
    }
    if ctx.recording() {
        let d: Vec<String> = items.iter().map(|(i, v)| describe(i, v.as_ref())).collect();
        ctx.note(|| format!("items: {:?}", d));
        ctx.note(|| format!("writer io: {}; reader io: {}; mode {}", wplan.describe(), rplan.describe(), mode));
    }

    // ---- fault-free-but-adversarial I/O: the V oracle
    let (sink, written, failed) = match produce(&items, wplan.clone()) {
        Ok(x) => x,
        Err(v) => return Some(v),
    };
    ctx.counters.add("fault.IO-SHORT", sink.stats.short);
    ctx.counters.add("fault.IO-EINTR", sink.stats.eintr);
    if sink.stats.eintr > 0 {
        ctx.counters.inc("probe.EINTR_retried_on_write");
    }
    if let Some((i, e)) = failed {
        return Some(Violation {
            signature: format!("C20/write-failed-under-legal-io/{}", kind_of(&items[i].0)),
            detail: format!("writing item {} ({}) failed with {} although the Write object only transferred short counts / returned Interrupted ({})", i, describe(&items[i].0, items[i].1.as_ref()), e, wplan.describe()),
        });
    }
    let stream = sink.sink.clone();
    ctx.log.ev("P", "produce", crate::choices::fnv1a(&stream), || format!("{} items, {} bytes: {}", written.len(), stream.len(), hex(&stream)));
    if let Some(v) = consume_exact(ctx, &stream, &written, &items, rplan.clone(), written.len(), "legal-io") {
        return Some(v);
    }
    ctx.nontrivial = !written.is_empty();

    match mode {
        6 => {
            // IO-CRASH@k on the writer: items completely written before k still read back exactly
            let k = ctx.ch.draw(0, stream.len() as u64 + 1) as usize;
            if let Some(v) = crash_at(ctx, &items, &wplan, &rplan, k, &stream) {
                return Some(v);
            }
        }
        7 => {
            // failing reader I/O: the property is silent -> diagnostics only
            let k = ctx.ch.draw(0, stream.len() as u64 + 1) as usize;
            let mut p = rplan.clone();
            if ctx.ch.draw(0, 2) == 0 {
                p.eof_at = Some(k);
                ctx.counters.inc("fault.IO-EOF@k");
            } else {
                p.err_at = Some((k, hard_error_kind(&mut Lane::new(ctx.ch, 0))));
                ctx.counters.inc("fault.IO-ERR@k");
            }
            reader_failure_diag(ctx, &stream, &written, &items, p, k);
        }
        8 => {
            // channel mutation: the content octet of a `true` replaced by any non-zero octet
            for (i, w) in written.iter().enumerate() {
                let is_true = match (&w.item, &items[i].1) {
                    (Item::Boolean(true), _) => true,
                    (Item::Typed(ty), Some(v)) if z.types[*ty].name == "prim.PBool" => (z.types[*ty].debug)(v).contains("true"),
                    _ => false,
                };
                if is_true && w.end > w.start {
                    let mut mutated = stream.clone();
                    let octet = 1 + ctx.ch.draw(0, 255) as u8;
                    mutated[w.end - 1] = octet;
                    ctx.counters.inc("fault.CH-BOOL-NONZERO");
                    if let Some(mut v) = consume_exact(ctx, &mutated, &written, &items, rplan.clone(), written.len(), "bool-nonzero") {
                        v.signature = format!("C20/boolean-nonzero-not-true/{:#04x}", 0);
                        v.detail = format!("content octet of a true replaced by {:#04x}: {}", octet, v.detail);
                        return Some(v);
                    }
                    ctx.counters.inc("probe.boolean_any_nonzero_octet_checked");
                    break;
                }
            }
        }
        9 => {
            // fault-point enumeration over this stream (exhaustive over position)
            if stream.len() <= 64 {
                for k in 0..=stream.len() {
                    if let Some(v) = crash_at(ctx, &items, &IoPlan::default(), &IoPlan::default(), k, &stream) {
                        return Some(v);
                    }
                    for eof in [true, false] {
                        let mut p = IoPlan::default();
                        if eof {
                            p.eof_at = Some(k);
                        } else {
                            p.err_at = Some((k, std::io::ErrorKind::Other));
                        }
                        reader_failure_diag(ctx, &stream, &written, &items, p, k);
                    }
                }
                for c in 1..=8usize {
                    let p = IoPlan { chunks: vec![c], ..IoPlan::default() };
                    if let Some(v) = consume_exact(ctx, &stream, &written, &items, p, written.len(), "chunk-enum") {
                        return Some(v);
                    }
                    // first call short by c, then unlimited
                    let p = IoPlan { chunks: vec![c, 0, 0, 0, 0, 0, 0, 0], ..IoPlan::default() };
                    if let Some(v) = consume_exact(ctx, &stream, &written, &items, p, written.len(), "chunk-enum") {
                        return Some(v);
                    }
                }
                ctx.counters.inc("probe.fault_point_enumeration_streams");
                ctx.counters.add("c20.enumerated_fault_points", 3 * (stream.len() as u64 + 1) + 16);
            }
        }
        _ => {}
    }
    None
}

/// reads the first `n` items back through a FaultyRead with `plan`; exact oracle
fn consume_exact(ctx: &mut RunCtx<'_>, stream: &[u8], written: &[Written], items: &[(Item, Option<Val>)], plan: IoPlan, n: usize, tag: &str) -> Option<Violation> {
    let mut src = FaultyRead::new(stream.to_vec(), plan.clone());
    for (i, w) in written.iter().take(n).enumerate() {
        let r = read_item(&mut src, w, items[i].1.as_ref());
        let kind = kind_of(&w.item);
        match r {
            Err(pi) => {
                return Some(Violation {
                    signature: format!("C20/panic/read/{kind}/{}", pi.sig()),
                    detail: format!("[{tag}] reading item {i} ({}) panicked: {} ({})", describe(&w.item, items[i].1.as_ref()), pi.message, pi.location),
                })
            }
            Ok(Err(e)) => {
                return Some(Violation {
                    signature: format!("C20/read-failed/{kind}"),
                    detail: format!("[{tag}] item {i} ({}) was written as bytes {}..{} ({}) but reading it back failed: {e}; reader io: {}", describe(&w.item, items[i].1.as_ref()), w.start, w.end, hex(&stream[w.start..w.end]), plan.describe()),
                })
            }
            Ok(Ok(false)) => {
                return Some(Violation {
                    signature: format!("C20/value-changed/{kind}"),
                    detail: format!("[{tag}] item {i} ({}) written as {} read back as a different value; reader io: {}", describe(&w.item, items[i].1.as_ref()), hex(&stream[w.start..w.end]), plan.describe()),
                })
            }
            Ok(Ok(true)) => {
                if src.pos != w.end {
                    return Some(Violation {
                        signature: format!("C20/consumed-bytes/{kind}"),
                        detail: format!("[{tag}] item {i} ({}) occupies bytes {}..{} but the reader consumed up to {}; reader io: {}", describe(&w.item, items[i].1.as_ref()), w.start, w.end, src.pos, plan.describe()),
                    });
                }
                ctx.counters.inc("c20.items_read_back_exact");
                ctx.log.ev("C", "read", (w.end as u64) << 8 | i as u64, || format!("item{i} {kind} ok pos={}", w.end));
            }
        }
    }
    if n == written.len() && src.pos != stream.len() {
        return Some(Violation { signature: "C20/bytes-remain-at-end".into(), detail: format!("[{tag}] {} of {} bytes consumed", src.pos, stream.len()) });
    }
    ctx.counters.add("fault.IO-SHORT", src.stats.short);
    ctx.counters.add("fault.IO-EINTR", src.stats.eintr);
    if src.stats.eintr > 0 {
        ctx.counters.inc("probe.EINTR_retried_on_read");
    }
    if src.stats.short > 0 {
        ctx.counters.inc("probe.short_reads_inside_item");
    }
    None
}

/// IO-CRASH@k: the writer's pipe accepts k bytes, then fails hard. Items completely written before
/// the crash must read back exactly (V); the rest is diagnostics.
fn crash_at(ctx: &mut RunCtx<'_>, items: &[(Item, Option<Val>)], wplan: &IoPlan, rplan: &IoPlan, k: usize, full: &[u8]) -> Option<Violation> {
    let mut p = wplan.clone();
    p.err_at = Some((k, std::io::ErrorKind::BrokenPipe));
    ctx.counters.inc("fault.IO-CRASH@k");
    let (sink, written, failed) = match produce(items, p) {
        Ok(x) => x,
        Err(v) => return Some(v),
    };
    let durable = sink.sink.clone();
    ctx.log.ev("P", "crash", k as u64, || format!("crash@{k}: {} items complete, {} durable bytes", written.len(), durable.len()));
    if durable.len() > k {
        return Some(Violation { signature: "HARNESS/crash-shim".into(), detail: format!("pipe accepted {} > {k} bytes", durable.len()) });
    }
    // the durable prefix equals the prefix of the uncrashed stream (the crash must not reach back)
    if full.len() >= durable.len() && full[..durable.len()] != durable[..] {
        ctx.counters.inc("diag.C20.durable_prefix_differs_from_uncrashed_stream");
    }
    match &failed {
        Some(_) => ctx.counters.inc("c20.crashed_write_returned_err"),
        None => {
            if k < full.len() {
                ctx.counters.inc("diag.C20.crashed_write_reported_ok");
            }
        }
    }
    // V: complete items read back exactly, consuming exactly their bytes
    // (the torn tail legitimately remains in the pipe: only the complete items are read)
    if let Some(mut v) = consume_exact(ctx, &durable, &written, items, rplan.clone(), usize::MAX, "after-writer-crash") {
        v.signature = format!("{}/after-writer-crash", v.signature);
        return Some(v);
    }
    if !written.is_empty() {
        ctx.counters.inc("probe.items_survived_writer_crash");
    }
    // D: the torn item reads as Err
    if let Some((i, _)) = failed {
        let torn_start = written.last().map(|w| w.end).unwrap_or(0);
        if durable.len() > torn_start {
            let mut src = FaultyRead::new(durable.clone(), rplan.clone());
            src.pos = torn_start;
            let w = Written { item: items[i].0.clone(), start: torn_start, end: durable.len() };
            match read_item(&mut src, &w, items[i].1.as_ref()) {
                Ok(Err(_)) => ctx.counters.inc("c20.torn_item_read_as_err"),
                Ok(Ok(_)) => ctx.counters.inc("diag.C20.torn_item_read_as_ok"),
                Err(_) => ctx.counters.inc("diag.C20.torn_item_read_panicked"),
            }
            ctx.counters.inc("probe.torn_item_seen");
        }
    }
    None
}

fn reader_failure_diag(ctx: &mut RunCtx<'_>, stream: &[u8], written: &[Written], items: &[(Item, Option<Val>)], plan: IoPlan, k: usize) {
    let mut src = FaultyRead::new(stream.to_vec(), plan);
    for (i, w) in written.iter().enumerate() {
        match read_item(&mut src, w, items[i].1.as_ref()) {
            Ok(Ok(true)) => {
                if w.end > k {
                    ctx.counters.inc("diag.C20.item_past_failure_point_read_ok");
                }
            }
            Ok(Ok(false)) => {
                ctx.counters.inc("diag.C20.value_changed_under_failing_reader");
                break;
            }
            Ok(Err(_)) => {
                ctx.counters.inc("c20.failing_reader_gave_err");
                break;
            }
            Err(_) => {
                ctx.counters.inc("diag.C20.panic_under_failing_reader");
                break;
            }
        }
    }
}
