//! C11: bit-level buffer operations equal a naive bit-vector model (DESIGN 5.C11). Bit-store layer:
//! histories of mixed operations on stateful stores against a `Vec<bool>` model, with capacity
//! ("disk full") and short-source ("EOF") faults.

use crate::choices::Lane;
use crate::engine::*;
use crate::guard::guard;
use asn1rs::prelude::{Bits, ScopedBitRead};
use asn1rs::protocol::per::unaligned::buffer::BitBuffer;
use asn1rs::protocol::per::unaligned::{BitRead, BitWrite};
use asn1rs::protocol::per::Error;

fn bit(v: &[u8], i: usize) -> bool {
    v[i / 8] & (0x80 >> (i % 8)) != 0
}

fn to_bits(v: &[u8]) -> Vec<bool> {
    (0..v.len() * 8).map(|i| bit(v, i)).collect()
}

fn draw_bytes(l: &mut Lane<'_>, max: usize) -> Vec<u8> {
    let n = match l.draw(6) {
        0 => l.draw(4) as usize,
        1 | 2 => l.draw(9) as usize,
        3 => 2 + l.draw(3) as usize, // around the bulk threshold of 16 bits
        _ => l.draw(max as u64 + 1) as usize,
    };
    let fill = l.draw(4);
    (0..n)
        .map(|i| match fill {
            0 => 0x00,
            1 => 0xff,
            2 => 0xa5u8.rotate_left(i as u32 % 8),
            _ => l.draw(256) as u8,
        })
        .collect()
}

/// (offset, len) over a buffer of `total` bits; `ok` says whether offset+len fits
fn draw_off_len(l: &mut Lane<'_>, total: usize) -> (usize, usize, bool) {
    let mode = l.draw(10);
    let off = match l.draw(4) {
        0 => 0,
        1 => l.draw(8) as usize,
        _ => l.draw(total as u64 + 1) as usize,
    }
    .min(total + 2);
    let room = total.saturating_sub(off);
    let len = match mode {
        0 => 0,
        1 => room,                                   // exact fit
        2 => room + 1,                               // one bit short
        3 => room + 1 + l.draw(17) as usize,         // clearly short
        4 => 15 + l.draw(4) as usize,                // bulk threshold (len <= 16 is bitwise)
        5 => room.saturating_sub(l.draw(9) as usize),
        6 => 8 * (l.draw(room as u64 / 8 + 1) as usize), // whole bytes
        _ => l.draw(room as u64 + 1) as usize,
    };
    (off, len, off + len <= total)
}

struct Viol;
impl Viol {
    fn new(sig: impl Into<String>, detail: String) -> Option<Violation> {
        Some(Violation { signature: sig.into(), detail })
    }
}

fn class(src_off: usize, dst_pos: usize, len: usize) -> String {
    format!("src%8={} dst%8={} len%8={} {}", src_off % 8, dst_pos % 8, len % 8, if len > 16 { "bulk" } else { "bitwise" })
}

pub fn run(ctx: &mut RunCtx<'_>) -> Option<Violation> {
    let kind = ctx.ch.draw(0, 41);
    match kind {
        0..=19 => run_bitbuffer(ctx),
        20..=31 => run_slice_write(ctx),
        32..=39 => run_readers(ctx),
        _ => run_extremes(ctx),
    }
}

/// Offsets and lengths near `usize::MAX` (a length taken from the wire, `usize::MAX` as "no limit"): the
/// request can never fit, so every store must answer `Err` - not overflow in its bounds arithmetic, not
/// index out of bounds, not succeed. And a `with_max_read` window that is wider than what has been written
/// must not let a read get past the written bits.
fn run_extremes(ctx: &mut RunCtx<'_>) -> Option<Violation> {
    const X: &[usize] = &[usize::MAX, usize::MAX - 1, usize::MAX - 7, usize::MAX - 8, usize::MAX / 2, usize::MAX / 2 + 1, usize::MAX / 8, usize::MAX / 8 + 1, 1 << 32];
    let mut l = Lane::new(ctx.ch, 1);
    let src = draw_bytes(&mut l, 16);
    let dn = l.draw(17) as usize;
    let prefix = draw_bytes(&mut l, 8);
    let prefix_bits = if prefix.is_empty() { 0 } else { l.draw(prefix.len() as u64 * 8 + 1) as usize };
    let big = X[l.draw(X.len() as u64) as usize];
    let small = l.draw(40) as usize;
    let (off, len) = match l.draw(3) {
        0 => (big, small),
        1 => (small, big),
        _ => (big, X[l.draw(X.len() as u64) as usize]),
    };
    let store = l.draw(5);
    let op = l.draw(3);
    let opname = ["with_offset", "with_len", "with_offset_len"][op as usize];
    let storename = ["bitbuffer-write", "bitbuffer-read", "tuple-write", "tuple-read", "bitbuffer-with_max_read"][store as usize];
    // with_offset only takes the offset, with_len only the length: make sure the one that is used is extreme
    let (off, len) = match op {
        0 => (off.max(1 << 32), len),
        1 => (off, len.max(1 << 32)),
        _ => (off, len),
    };
    ctx.log.ev("X", storename, (op << 8) ^ (off as u64).rotate_left(17) ^ len as u64, || format!("{opname} off={off} len={len} src {} bytes dst {dn} bytes cursor {prefix_bits}", src.len()));
    ctx.counters.inc("probe.extreme_offset_or_length");
    ctx.nontrivial = true;
    let mut bb = BitBuffer::default();
    if prefix_bits > 0 && bb.write_bits_with_len(&prefix, prefix_bits).is_err() {
        return None;
    }
    let mut dst = vec![0xa5u8; dn];
    let fail = |what: &str, detail: String| Viol::new(format!("C11/extreme-arguments/{storename}/{opname}/{what}"), detail);
    match store {
        0 => {
            let r = guard(|| match op {
                0 => bb.write_bits_with_offset(&src, off),
                1 => bb.write_bits_with_len(&src, len),
                _ => bb.write_bits_with_offset_len(&src, off, len),
            });
            match r {
                Err(pi) => return fail("panic", format!("{opname}(src {} bytes, off {off}, len {len}) at write position {prefix_bits} panicked: {} ({})", src.len(), pi.message, pi.location)),
                Ok(Ok(())) => return fail("ok", format!("{opname}(src {} bytes, off {off}, len {len}) returned Ok", src.len())),
                Ok(Err(_)) => {}
            }
            if bb.bit_len() != prefix_bits {
                return fail("cursor", format!("write cursor {} after the failed call, was {prefix_bits}", bb.bit_len()));
            }
            bb_invariant(&bb, "failed write with extreme arguments")
        }
        1 => {
            let r = guard(|| match op {
                0 => bb.read_bits_with_offset(&mut dst, off),
                1 => bb.read_bits_with_len(&mut dst, len),
                _ => bb.read_bits_with_offset_len(&mut dst, off, len),
            });
            match r {
                Err(pi) => fail("panic", format!("{opname}(dst {dn} bytes, off {off}, len {len}) with {prefix_bits} bits written panicked: {} ({})", pi.message, pi.location)),
                Ok(Ok(())) => fail("ok", format!("{opname}(dst {dn} bytes, off {off}, len {len}) with {prefix_bits} bits written returned Ok")),
                Ok(Err(_)) => bb_invariant(&bb, "failed read with extreme arguments"),
            }
        }
        2 => {
            let mut store = prefix.clone();
            let mut pos = prefix_bits;
            let r = guard(|| {
                let mut t = (&mut store[..], &mut pos);
                match op {
                    0 => t.write_bits_with_offset(&src, off),
                    1 => t.write_bits_with_len(&src, len),
                    _ => t.write_bits_with_offset_len(&src, off, len),
                }
            });
            match r {
                Err(pi) => fail("panic", format!("{opname}(src {} bytes, off {off}, len {len}) on a {} byte slice at {prefix_bits} panicked: {} ({})", src.len(), prefix.len(), pi.message, pi.location)),
                Ok(Ok(())) => fail("ok", format!("{opname}(src {} bytes, off {off}, len {len}) on a {} byte slice returned Ok", src.len(), prefix.len())),
                Ok(Err(_)) => None,
            }
        }
        3 => {
            let mut pos = prefix_bits;
            let r = guard(|| {
                let mut t = (&prefix[..], &mut pos);
                match op {
                    0 => t.read_bits_with_offset(&mut dst, off),
                    1 => t.read_bits_with_len(&mut dst, len),
                    _ => t.read_bits_with_offset_len(&mut dst, off, len),
                }
            });
            match r {
                Err(pi) => fail("panic", format!("{opname}(dst {dn} bytes, off {off}, len {len}) on a {} byte slice at {prefix_bits} panicked: {} ({})", prefix.len(), pi.message, pi.location)),
                Ok(Ok(())) => fail("ok", format!("{opname}(dst {dn} bytes, off {off}, len {len}) on a {} byte slice returned Ok", prefix.len())),
                Ok(Err(_)) => None,
            }
        }
        _ => {
            // a window wider than what is written (a limit of usize::MAX means "no limit")
            let window = if l.draw(2) == 0 { big } else { prefix_bits + 1 + l.draw(70) as usize };
            let want = l.draw(70) as usize;
            // (the closure is `Fn`: it owns its destination)
            let r = guard(|| {
                bb.with_max_read(window, |b| {
                    let mut d = vec![0u8; (want + 7) / 8];
                    b.read_bits_with_len(&mut d, want)
                })
            });
            match r {
                Err(pi) => return fail("panic", format!("with_max_read({window}) with {prefix_bits} bits written panicked: {} ({})", pi.message, pi.location)),
                Ok(Ok(())) if want > prefix_bits => return fail("ok", format!("with_max_read({window}, read {want} bits) returned Ok although only {prefix_bits} bits are written")),
                Ok(Err(_)) if want <= prefix_bits => return fail("err", format!("with_max_read({window}, read {want} bits) failed although {prefix_bits} bits are written")),
                _ => {}
            }
            if bb.bit_len() != prefix_bits {
                return fail("cursor", format!("write position {} after with_max_read, was {prefix_bits}", bb.bit_len()));
            }
            None
        }
    }
}

// ------------------------------------------------------------------------------------------------

struct BbModel {
    bits: Vec<bool>,
    read: usize,
}

fn bb_invariant(b: &BitBuffer, op: &str) -> Option<Violation> {
    let want = (b.bit_len() + 7) / 8;
    if b.content().len() != want {
        return Viol::new(
            format!("C11/bitbuffer-length-invariant/after={op}"),
            format!("after {op}: bit_len={} but content is {} bytes (expected ceil(bit_len/8) = {})", b.bit_len(), b.content().len(), want),
        );
    }
    if b.bit_len() % 8 != 0 {
        let last = *b.content().last().unwrap();
        if last & (0xffu8 >> (b.bit_len() % 8)) != 0 {
            return Viol::new(
                format!("C11/bitbuffer-padding-not-zero/after={op}"),
                format!("after {op}: bit_len={} last byte {:#04x} has non-zero padding bits", b.bit_len(), last),
            );
        }
    }
    None
}

fn bb_equals_model(b: &BitBuffer, m: &BbModel, op: &str, cls: &str) -> Option<Violation> {
    if b.bit_len() != m.bits.len() {
        return Viol::new(format!("C11/cursor/bitbuffer/{op}"), format!("after {op} ({cls}): write cursor {} but model {}", b.bit_len(), m.bits.len()));
    }
    let c = b.content();
    for (i, mb) in m.bits.iter().enumerate() {
        if i / 8 >= c.len() || bit(c, i) != *mb {
            return Viol::new(format!("C11/content/bitbuffer/{op}"), format!("after {op} ({cls}): bit {i} differs from the model (content {})", hex(c)));
        }
    }
    None
}

fn resync(b: &BitBuffer, m: &mut BbModel) {
    let c = b.content();
    m.bits = (0..b.bit_len()).map(|i| i / 8 < c.len() && bit(c, i)).collect();
}

fn run_bitbuffer(ctx: &mut RunCtx<'_>) -> Option<Violation> {
    let steps = 2 + ctx.ch.draw(0, if ctx.tier == Tier::Quick { 24 } else { 64 });
    let mut b = BitBuffer::default();
    let mut m = BbModel { bits: Vec::new(), read: 0 };
    let mut ok_ops = 0u32;
    for _ in 0..steps {
        let op = ctx.ch.draw(0, 16);
        let mut l = Lane::new(ctx.ch, 1);
        match op {
            0 => {
                let v = l.draw(2) == 1;
                let r = guard(|| b.write_bit(v));
                ctx.log.ev("B", "write_bit", v as u64, || format!("{v}"));
                match r {
                    Ok(Ok(())) => {
                        m.bits.push(v);
                        ok_ops += 1;
                    }
                    Ok(Err(e)) => return Viol::new("C11/unexpected-error/bitbuffer/write_bit", format!("write_bit on a growable buffer failed: {:?}", e.kind())),
                    Err(pi) => return Viol::new(format!("C11/panic/bitbuffer/write_bit/{}", pi.sig()), pi.message),
                }
                if let Some(v) = bb_equals_model(&b, &m, "write_bit", "") {
                    return Some(v);
                }
            }
            1..=5 => {
                // the four bulk writes: source bits src[off..off+len] are appended
                let src = draw_bytes(&mut l, 64);
                let total = src.len() * 8;
                let (off, len, fits) = match op {
                    1 => (0, total, true),
                    2 => {
                        // write_bits_with_offset: len is implied
                        let off = match l.draw(5) {
                            0 => total + 1 + l.draw(9) as usize, // offset past the source: "source too short"
                            1 => total,
                            _ => l.draw(total as u64 + 1) as usize,
                        };
                        (off, total.saturating_sub(off), off <= total)
                    }
                    3 => {
                        let (_, len, _) = draw_off_len(&mut l, total);
                        (0, len, len <= total)
                    }
                    _ => draw_off_len(&mut l, total),
                };
                let name = ["", "write_bits", "write_bits_with_offset", "write_bits_with_len", "write_bits_with_offset_len", "write_bits_with_offset_len"][op as usize];
                let pos = m.bits.len();
                let cls = class(off, pos, len);
                let r = guard(|| match op {
                    1 => b.write_bits(&src),
                    2 => b.write_bits_with_offset(&src, off),
                    3 => b.write_bits_with_len(&src, len),
                    _ => b.write_bits_with_offset_len(&src, off, len),
                });
                ctx.log.ev("B", name, (off * 131 + len) as u64 ^ (fits as u64) << 40, || format!("src={} off={off} len={len} at {pos} fits={fits}", hex(&src)));
                if len > 16 && fits {
                    ctx.counters.inc(if off % 8 == pos % 8 { "probe.bulk_copy_aligned_branch" } else { "probe.bulk_copy_unaligned_branch" });
                }
                match r {
                    Err(pi) => {
                        return Viol::new(
                            format!("C11/panic/bitbuffer/{name}/{}", if fits { "fits" } else { "source-too-short" }),
                            format!("{name}(src {} bytes, off {off}, len {len}) at write position {pos} panicked: {} ({})", src.len(), pi.message, pi.location),
                        )
                    }
                    Ok(Ok(())) => {
                        if !fits {
                            return Viol::new(format!("C11/success-though-source-too-short/bitbuffer/{name}"), format!("{name}: off {off} + len {len} > {total} source bits but the call returned Ok"));
                        }
                        for i in 0..len {
                            m.bits.push(bit(&src, off + i));
                        }
                        ok_ops += 1;
                        if let Some(v) = bb_equals_model(&b, &m, name, &cls) {
                            return Some(v);
                        }
                    }
                    Ok(Err(_)) => {
                        if fits {
                            return Viol::new(format!("C11/unexpected-error/bitbuffer/{name}"), format!("{name}: off {off} + len {len} <= {total} source bits but the call failed ({cls})"));
                        }
                        ctx.counters.inc("fault.SRC-SHORT.bitbuffer");
                        resync(&b, &mut m);
                    }
                }
            }
            6 => {
                if m.bits.is_empty() {
                    continue;
                }
                if l.draw(2) == 1 {
                    // overwrite a RANGE of already written bits with the cursor moved back: the range may end
                    // exactly at the end of the buffer (the growth check runs although nothing may grow), never
                    // beyond what is written (the cursor is restored afterwards, so that is outside the contract)
                    let total = m.bits.len();
                    let p = l.draw(total as u64) as usize;
                    let room = total - p;
                    let n = match l.draw(3) {
                        0 => room,
                        1 => 1 + l.draw(room.min(16) as u64) as usize,
                        _ => 1 + l.draw(room as u64) as usize,
                    };
                    let off = if l.draw(3) == 0 { 0 } else { l.draw(8) as usize };
                    let fill = l.draw(3);
                    let src: Vec<u8> = (0..(off + n + 7) / 8).map(|i| match fill { 0 => 0xff, 1 => 0x5au8.rotate_left(i as u32 % 8), _ => l.draw(256) as u8 }).collect();
                    let how = l.draw(3);
                    let whole = off == 0 && n % 8 == 0;
                    let r = guard(|| {
                        b.with_write_position_at(p, |b| match how {
                            0 if whole => b.write_bits(&src),
                            1 if off == 0 => b.write_bits_with_len(&src, n),
                            _ => b.write_bits_with_offset_len(&src, off, n),
                        })
                    });
                    let cls = class(off, p, n);
                    ctx.log.ev("B", "with_write_position_at-range", (p * 4099 + n * 8 + off) as u64, || format!("pos={p} len={n} of {total} src={} off={off} how={how}", hex(&src)));
                    ctx.counters.inc(if p + n == total { "probe.overwrite_range_ends_at_buffer_end" } else { "probe.overwrite_range_inside" });
                    match r {
                        Ok(Ok(())) => {
                            for i in 0..n {
                                m.bits[p + i] = bit(&src, off + i);
                            }
                            ok_ops += 1;
                        }
                        Ok(Err(e)) => return Viol::new("C11/unexpected-error/bitbuffer/with_write_position_at-range", format!("overwriting bits {p}..{} of {total} written bits failed ({cls}): {:?}", p + n, e.kind())),
                        Err(pi) => return Viol::new(format!("C11/panic/bitbuffer/with_write_position_at-range/{}", pi.sig()), pi.message),
                    }
                    if let Some(v) = bb_equals_model(&b, &m, "with_write_position_at-range", &cls) {
                        return Some(v);
                    }
                    if let Some(v) = bb_invariant(&b, "with_write_position_at-range") {
                        return Some(v);
                    }
                    continue;
                }
                // patch one bit at an already written position (what the UPER writer does)
                let p = l.draw(m.bits.len() as u64) as usize;
                let v = l.draw(2) == 1;
                let r = guard(|| b.with_write_position_at(p, |b| b.write_bit(v)));
                ctx.log.ev("B", "with_write_position_at", p as u64 * 2 + v as u64, || format!("pos={p} bit={v}"));
                match r {
                    Ok(Ok(())) => {
                        m.bits[p] = v;
                        ok_ops += 1;
                    }
                    Ok(Err(e)) => return Viol::new("C11/unexpected-error/bitbuffer/with_write_position_at", format!("{:?}", e.kind())),
                    Err(pi) => return Viol::new(format!("C11/panic/bitbuffer/with_write_position_at/{}", pi.sig()), pi.message),
                }
                if let Some(v) = bb_equals_model(&b, &m, "with_write_position_at", "") {
                    return Some(v);
                }
            }
            7 => {
                let r = guard(|| b.read_bit());
                let expect = m.bits.get(m.read).copied();
                ctx.log.ev("B", "read_bit", m.read as u64, || format!("at {}", m.read));
                match (r, expect) {
                    (Ok(Ok(v)), Some(e)) => {
                        if v != e {
                            return Viol::new("C11/read-value/bitbuffer/read_bit", format!("read_bit at {} gave {v}, model {e}", m.read));
                        }
                        m.read += 1;
                        ok_ops += 1;
                    }
                    (Ok(Err(_)), None) => ctx.counters.inc("fault.READ-PAST-END.bitbuffer"),
                    (Ok(Ok(_)), None) => return Viol::new("C11/success-past-end/bitbuffer/read_bit", format!("read_bit at {} == bit_len returned Ok", m.read)),
                    (Ok(Err(e)), Some(_)) => return Viol::new("C11/unexpected-error/bitbuffer/read_bit", format!("{:?}", e.kind())),
                    (Err(pi), _) => return Viol::new(format!("C11/panic/bitbuffer/read_bit/{}", pi.sig()), pi.message),
                }
            }
            8..=11 => {
                let fill = if l.draw(2) == 0 { 0x00 } else { 0xff };
                let dn = match l.draw(4) {
                    0 => l.draw(3) as usize,
                    _ => l.draw(20) as usize,
                };
                let mut dst = vec![fill; dn];
                let total = dn * 8;
                let avail = m.bits.len() - m.read;
                let (off, len, dst_fits) = match op {
                    8 => (0, total, true),
                    9 => {
                        let off = match l.draw(5) {
                            0 => total + 1 + l.draw(9) as usize,
                            _ => l.draw(total as u64 + 1) as usize,
                        };
                        (off, total.saturating_sub(off), off <= total)
                    }
                    10 => {
                        let (_, len, _) = draw_off_len(&mut l, total);
                        (0, len, len <= total)
                    }
                    _ => draw_off_len(&mut l, total),
                };
                let fits = dst_fits && len <= avail;
                let name = ["read_bits", "read_bits_with_offset", "read_bits_with_len", "read_bits_with_offset_len"][op as usize - 8];
                let before = dst.clone();
                let rp = m.read;
                let r = guard(|| match op {
                    8 => b.read_bits(&mut dst),
                    9 => b.read_bits_with_offset(&mut dst, off),
                    10 => b.read_bits_with_len(&mut dst, len),
                    _ => b.read_bits_with_offset_len(&mut dst, off, len),
                });
                let cls = class(rp, off, len);
                ctx.log.ev("B", name, (off * 131 + len) as u64 ^ (fits as u64) << 40, || format!("dst {dn} bytes off={off} len={len} from {rp} avail={avail} fits={fits}"));
                match r {
                    Err(pi) => {
                        return Viol::new(
                            format!("C11/panic/bitbuffer/{name}/{}", if fits { "fits" } else { "too-short" }),
                            format!("{name}(dst {dn} bytes, off {off}, len {len}) at read position {rp} of {} bits panicked: {} ({})", m.bits.len(), pi.message, pi.location),
                        )
                    }
                    Ok(Ok(())) => {
                        if !fits {
                            return Viol::new(format!("C11/success-though-too-short/bitbuffer/{name}"), format!("{name}: dst off {off} + len {len} vs {total} dst bits, {avail} bits available, but Ok"));
                        }
                        for i in 0..total {
                            let want = if i >= off && i < off + len { m.bits[rp + (i - off)] } else { bit(&before, i) };
                            if bit(&dst, i) != want {
                                return Viol::new(
                                    format!("C11/read-effect/bitbuffer/{}", if i >= off && i < off + len { "copied-bits-wrong" } else { "other-destination-bits-changed" }),
                                    format!("{name} ({cls}): destination bit {i} is {} (dst before {} after {})", bit(&dst, i), hex(&before), hex(&dst)),
                                );
                            }
                        }
                        m.read += len;
                        ok_ops += 1;
                    }
                    Ok(Err(_)) => {
                        if fits {
                            return Viol::new(format!("C11/unexpected-error/bitbuffer/{name}"), format!("{name}: fits (off {off} len {len} dst {total} bits, avail {avail}) but failed ({cls})"));
                        }
                        ctx.counters.inc("fault.DST-OR-SRC-SHORT.bitbuffer-read");
                    }
                }
            }
            12 => {
                b.reset_read_position();
                m.read = 0;
                ctx.log.ev("B", "reset_read_position", 0, String::new);
            }
            13 => {
                if l.draw(4) == 0 {
                    b.clear();
                    m.bits.clear();
                    m.read = 0;
                    ctx.log.ev("B", "clear", 0, String::new);
                }
            }
            14 => {
                // conversions: rebuild from parts and view through Bits
                let nb = BitBuffer::from_bits(b.content().to_vec(), b.bit_len());
                if nb.bit_len() != b.bit_len() || nb.content() != b.content() {
                    return Viol::new("C11/conversion/from_bits", "from_bits(content, bit_len) differs".to_string());
                }
                let mut view = Bits::from(&b);
                ctx.log.ev("B", "view", view.len() as u64, String::new);
                if view.len() != m.bits.len() {
                    return Viol::new("C11/conversion/Bits-from-BitBuffer", format!("len {} vs {}", view.len(), m.bits.len()));
                }
                for (i, e) in m.bits.iter().enumerate().take(64) {
                    match guard(|| view.read_bit()) {
                        Ok(Ok(v)) if v == *e => {}
                        other => return Viol::new("C11/read-value/Bits/read_bit", format!("bit {i}: {:?} vs model {e}", other.map(|r| r.map_err(|e| format!("{:?}", e.kind()))))),
                    }
                }
            }
            _ => {
                // with_max_read: reads inside the window succeed, past it fail
                let avail = m.bits.len() - m.read;
                if avail == 0 {
                    continue;
                }
                let max = l.draw(avail as u64 + 1) as usize;
                let rp = m.read;
                let r = guard(|| {
                    b.with_max_read(max, |b| {
                        let mut got = Vec::new();
                        for _ in 0..max {
                            got.push(b.read_bit());
                        }
                        let past = b.read_bit();
                        (got, past)
                    })
                });
                ctx.log.ev("B", "with_max_read", max as u64, || format!("max={max} at {rp}"));
                match r {
                    Err(pi) => return Viol::new(format!("C11/panic/bitbuffer/with_max_read/{}", pi.sig()), pi.message),
                    Ok((got, past)) => {
                        for (i, g) in got.iter().enumerate() {
                            match g {
                                Ok(v) if *v == m.bits[rp + i] => {}
                                _ => return Viol::new("C11/read-value/bitbuffer/with_max_read", format!("bit {i} of window")),
                            }
                        }
                        if past.is_ok() {
                            return Viol::new("C11/success-past-end/bitbuffer/with_max_read", format!("read_bit past a window of {max} bits returned Ok"));
                        }
                        m.read += max;
                        if b.bit_len() != m.bits.len() {
                            return Viol::new("C11/cursor/bitbuffer/with_max_read", "write position not restored".to_string());
                        }
                    }
                }
            }
        }
        // the property says "always"
        if let Some(v) = bb_invariant(&b, "op") {
            let opname = ["write_bit", "write_bits", "write_bits_with_offset", "write_bits_with_len", "write_bits_with_offset_len", "write_bits_with_offset_len", "with_write_position_at", "read_bit", "read_bits", "read_bits_with_offset", "read_bits_with_len", "read_bits_with_offset_len", "reset_read_position", "clear", "view", "with_max_read"][op as usize];
            return Some(Violation { signature: v.signature.replace("after=op", &format!("after={opname}")), detail: v.detail.replace("after op", &format!("after {opname}")) });
        }
    }
    ctx.nontrivial = ok_ops >= 2;
    None
}

// ------------------------------------------------------------------------------------------------

fn run_slice_write(ctx: &mut RunCtx<'_>) -> Option<Violation> {
    let steps = 1 + ctx.ch.draw(0, if ctx.tier == Tier::Quick { 12 } else { 32 });
    let mut l = Lane::new(ctx.ch, 1);
    let cap = match l.draw(5) {
        0 => 0,
        1 => 1 + l.draw(5) as usize,
        _ => l.draw(65) as usize,
    };
    let fill = l.draw(4);
    let mut dst: Vec<u8> = (0..cap)
        .map(|i| match fill {
            0 => 0x00,
            1 => 0xff,
            2 => 0x5au8.rotate_left(i as u32 % 8),
            _ => l.draw(256) as u8,
        })
        .collect();
    let total = cap * 8;
    let mut model = to_bits(&dst);
    let mut pos: usize = 0;
    let mut ok_ops = 0;
    for _ in 0..steps {
        let mut l = Lane::new(ctx.ch, 1);
        // move the cursor sometimes (the tuple's cursor is the caller's: it may even stand past the end)
        match l.draw(12) {
            0..=3 => pos = l.draw(total as u64 + 1) as usize,
            4 => {
                pos = total + 1 + l.draw(20) as usize;
                ctx.counters.inc("probe.cursor_strictly_past_the_end");
            }
            _ => {}
        }
        let op = l.draw(5);
        let src = draw_bytes(&mut l, 64);
        let stotal = src.len() * 8;
        let (off, len, src_fits) = match op {
            0 => (0, 1, true),
            1 => (0, stotal, true),
            2 => {
                let off = match l.draw(5) {
                    0 => stotal + 1 + l.draw(9) as usize,
                    _ => l.draw(stotal as u64 + 1) as usize,
                };
                (off, stotal.saturating_sub(off), off <= stotal)
            }
            3 => {
                let (_, len, _) = draw_off_len(&mut l, stotal);
                (0, len, len <= stotal)
            }
            _ => draw_off_len(&mut l, stotal),
        };
        // bias the length so that destination boundaries are hit as well
        let room = total - pos.min(total);
        let len = if op == 4 && l.draw(3) == 0 && src_fits { len.min(room + l.draw(2) as usize).min(stotal.saturating_sub(off)) } else { len };
        let v = l.draw(2) == 1;
        let fits = src_fits && pos + len <= total;
        // zero-length request with the cursor strictly past the end: not judged (see the reader side)
        let unspecified = len == 0 && pos > total;
        let name = ["write_bit", "write_bits", "write_bits_with_offset", "write_bits_with_len", "write_bits_with_offset_len"][op as usize];
        let cls = class(off, pos, len);
        let before_pos = pos;
        let r = guard(|| {
            let mut t = (&mut dst[..], &mut pos);
            match op {
                0 => t.write_bit(v),
                1 => t.write_bits(&src),
                2 => t.write_bits_with_offset(&src, off),
                3 => t.write_bits_with_len(&src, len),
                _ => t.write_bits_with_offset_len(&src, off, len),
            }
        });
        ctx.log.ev("S", name, (off * 131 + len * 7 + before_pos) as u64 ^ (fits as u64) << 40, || format!("src {} off={off} len={len} at {before_pos}/{total} fits={fits}", hex(&src)));
        if len > 16 && fits {
            ctx.counters.inc(if off % 8 == before_pos % 8 { "probe.bulk_copy_aligned_branch" } else { "probe.bulk_copy_unaligned_branch" });
        }
        if fits && before_pos + len == total && len > 0 {
            ctx.counters.inc("probe.exact_fit_destination");
        }
        match r {
            Err(pi) => {
                return Viol::new(
                    format!("C11/panic/slice/{name}/{}", if fits { "fits" } else if !src_fits { "source-too-short" } else { "destination-too-short" }),
                    format!("{name}(src {} bytes, off {off}, len {len}) at {before_pos} of {total} destination bits panicked: {} ({})", src.len(), pi.message, pi.location),
                )
            }
            Ok(_) if unspecified => {
                ctx.counters.inc("c11.zero_length_request_past_the_end_not_judged");
                model = to_bits(&dst);
            }
            Ok(Ok(())) => {
                if !fits {
                    return Viol::new(format!("C11/success-though-too-short/slice/{name}"), format!("{name}: src off {off}+len {len} of {stotal}; dst {before_pos}+{len} of {total}; but Ok"));
                }
                if pos != before_pos + len {
                    return Viol::new(format!("C11/cursor/slice/{name}"), format!("cursor {before_pos} -> {pos}, expected +{len}"));
                }
                for i in 0..len {
                    model[before_pos + i] = if op == 0 { v } else { bit(&src, off + i) };
                }
                for (i, mb) in model.iter().enumerate() {
                    if bit(&dst, i) != *mb {
                        let inside = i >= before_pos && i < before_pos + len;
                        return Viol::new(
                            format!("C11/write-effect/slice/{}/{}", if inside { "copied-bits-wrong" } else { "other-destination-bits-changed" }, if len > 16 { "bulk" } else { "bitwise" }),
                            format!("{name} ({cls}) of {len} bits at {before_pos}: destination bit {i} is {} (dst now {})", bit(&dst, i), hex(&dst)),
                        );
                    }
                }
                ok_ops += 1;
            }
            Ok(Err(_)) => {
                if fits {
                    return Viol::new(format!("C11/unexpected-error/slice/{name}"), format!("{name} fits ({cls}; src {stotal} bits, dst room {}) but failed", total - before_pos));
                }
                ctx.counters.inc(if src_fits { "fault.DST-FULL.slice" } else { "fault.SRC-SHORT.slice" });
                // a failed call is a call that did not happen for the cursor: the naive model does not move, and
                // a store that does answers the REST of the sequence differently (e.g. a zero-length request at
                // the end). The content after a failed operation is not specified: re-synchronise that.
                if pos != before_pos {
                    return Viol::new(format!("C11/cursor-moved-by-failed-call/slice/{name}"), format!("{name} ({cls}) at {before_pos} of {total} bits failed but the cursor is {pos} afterwards"));
                }
                model = to_bits(&dst);
            }
        }
    }
    ctx.nontrivial = ok_ops >= 2;
    None
}

// ------------------------------------------------------------------------------------------------

enum Rd<'a> {
    Tuple(&'a [u8], usize),
    Bits(Bits<'a>),
}

fn run_readers(ctx: &mut RunCtx<'_>) -> Option<Violation> {
    let steps = 1 + ctx.ch.draw(0, if ctx.tier == Tier::Quick { 12 } else { 32 });
    let mut l = Lane::new(ctx.ch, 1);
    let data = draw_bytes(&mut l, 64);
    let model = to_bits(&data);
    let use_bits = l.draw(2) == 1;
    // visible length of the Bits view
    let mut vis = if use_bits { l.draw(model.len() as u64 + 1) as usize } else { model.len() };
    let mut rd = if use_bits { Rd::Bits(Bits::from((&data[..], vis))) } else { Rd::Tuple(&data, 0) };
    let mut pos = 0usize;
    let mut ok_ops = 0;
    for _ in 0..steps {
        let mut l = Lane::new(ctx.ch, 1);
        if l.draw(3) == 0 {
            // reposition
            match &mut rd {
                Rd::Tuple(_, p) => {
                    *p = if l.draw(6) == 0 {
                        ctx.counters.inc("probe.cursor_strictly_past_the_end");
                        model.len() + 1 + l.draw(20) as usize
                    } else {
                        l.draw(model.len() as u64 + 1) as usize
                    };
                    pos = *p;
                }
                Rd::Bits(b) => {
                    if l.draw(4) == 0 {
                        let nl = l.draw(model.len() as u64 + 1) as usize;
                        let got = b.set_len(nl);
                        vis = nl.min(model.len());
                        if got != vis {
                            return Viol::new("C11/set_len", format!("set_len({nl}) returned {got}, expected {vis}"));
                        }
                        // keep pos <= len (a caller obligation: set_len below pos is not exercised)
                        let np = b.pos().min(vis);
                        b.set_pos(np);
                        pos = np;
                    } else {
                        let want = l.draw(model.len() as u64 + 3) as usize;
                        let got = b.set_pos(want);
                        if got != want.min(vis) || b.pos() != got {
                            return Viol::new("C11/set_pos", format!("set_pos({want}) with len {vis} returned {got}"));
                        }
                        pos = got;
                    }
                }
            }
        }
        let op = l.draw(5);
        let fillb = if l.draw(2) == 0 { 0x00 } else { 0xff };
        let dn = l.draw(24) as usize;
        let mut dst = vec![fillb; dn];
        let total = dn * 8;
        let (off, len, dst_fits) = match op {
            0 => (0, 1, true),
            1 => (0, total, true),
            2 => {
                let off = match l.draw(5) {
                    0 => total + 1 + l.draw(9) as usize,
                    _ => l.draw(total as u64 + 1) as usize,
                };
                (off, total.saturating_sub(off), off <= total)
            }
            3 => {
                let (_, len, _) = draw_off_len(&mut l, total);
                (0, len, len <= total)
            }
            _ => draw_off_len(&mut l, total),
        };
        let avail = vis.saturating_sub(pos);
        let fits = dst_fits && len <= avail;
        // a zero-length request with the cursor strictly past the end: the property does not say
        // whether that "fits" (asn1rs answers Err); both answers are accepted, nothing is asserted
        let unspecified = len == 0 && pos > vis;
        let name = ["read_bit", "read_bits", "read_bits_with_offset", "read_bits_with_len", "read_bits_with_offset_len"][op as usize];
        let store = if use_bits { "Bits" } else { "tuple" };
        let before = dst.clone();
        let mut got_bit = false;
        let r = guard(|| -> Result<(), Error> {
            macro_rules! go {
                ($t:expr) => {
                    match op {
                        0 => $t.read_bit().map(|b| got_bit = b),
                        1 => $t.read_bits(&mut dst),
                        2 => $t.read_bits_with_offset(&mut dst, off),
                        3 => $t.read_bits_with_len(&mut dst, len),
                        _ => $t.read_bits_with_offset_len(&mut dst, off, len),
                    }
                };
            }
            match &mut rd {
                Rd::Tuple(s, p) => {
                    let mut t = (*s, p);
                    go!(t)
                }
                Rd::Bits(b) => go!(b),
            }
        });
        let cls = class(pos, off, len);
        ctx.log.ev("R", name, (off * 131 + len * 7 + pos) as u64 ^ (fits as u64) << 40, || format!("{store} dst {dn} bytes off={off} len={len} from {pos}/{vis} fits={fits}"));
        if len > 16 && fits {
            ctx.counters.inc(if off % 8 == pos % 8 { "probe.bulk_copy_aligned_branch" } else { "probe.bulk_copy_unaligned_branch" });
        }
        if !fits && pos == vis && op == 0 {
            ctx.counters.inc("probe.read_bit_at_exact_end");
        }
        match r {
            Err(pi) => {
                return Viol::new(
                    format!("C11/panic/{store}/{name}/{}", if fits { "fits" } else { "too-short" }),
                    format!("{name}(dst {dn} bytes, off {off}, len {len}) at {pos} of {vis} bits panicked: {} ({})", pi.message, pi.location),
                )
            }
            Ok(_) if unspecified => {
                ctx.counters.inc("c11.zero_length_request_past_the_end_not_judged");
            }
            Ok(Ok(())) => {
                if !fits {
                    return Viol::new(format!("C11/success-though-too-short/{store}/{name}"), format!("{name}: {avail} bits available, dst off {off} + len {len} of {total}; but Ok"));
                }
                if op == 0 {
                    if got_bit != model[pos] {
                        return Viol::new(format!("C11/read-value/{store}/read_bit"), format!("bit {pos}"));
                    }
                } else {
                    for i in 0..total {
                        let want = if i >= off && i < off + len { model[pos + (i - off)] } else { bit(&before, i) };
                        if bit(&dst, i) != want {
                            let inside = i >= off && i < off + len;
                            return Viol::new(
                                format!("C11/read-effect/{store}/{}/{}", if inside { "copied-bits-wrong" } else { "other-destination-bits-changed" }, if len > 16 { "bulk" } else { "bitwise" }),
                                format!("{name} ({cls}) of {len} bits from {pos}: destination bit {i} is {} (before {} after {})", bit(&dst, i), hex(&before), hex(&dst)),
                            );
                        }
                    }
                }
                pos += len;
                let real = match &rd {
                    Rd::Tuple(_, p) => *p,
                    Rd::Bits(b) => b.pos(),
                };
                if real != pos {
                    return Viol::new(format!("C11/cursor/{store}/{name}"), format!("cursor is {real}, expected {pos}"));
                }
                ok_ops += 1;
            }
            Ok(Err(_)) => {
                if fits {
                    return Viol::new(format!("C11/unexpected-error/{store}/{name}"), format!("{name} fits ({cls}; {avail} available) but failed"));
                }
                ctx.counters.inc(&format!("fault.READ-SHORT.{store}"));
                // a failed read has read nothing: the cursor stays (see the writer side)
                let real = match &rd {
                    Rd::Tuple(_, p) => *p,
                    Rd::Bits(b) => b.pos(),
                };
                if real != pos {
                    return Viol::new(format!("C11/cursor-moved-by-failed-call/{store}/{name}"), format!("{name} ({cls}) at {pos} of {vis} bits failed but the cursor is {real} afterwards"));
                }
                if pos > vis {
                    // the cursor had been placed past the end on purpose; continue from a sane place
                    match &mut rd {
                        Rd::Tuple(_, p) => *p = vis,
                        Rd::Bits(b) => {
                            b.set_pos(vis);
                        }
                    }
                    pos = vis;
                }
            }
        }
        if let Rd::Bits(b) = &rd {
            match guard(|| b.remaining()) {
                Ok(r) if r == vis - pos => {}
                Ok(r) => return Viol::new("C11/Bits-remaining", format!("remaining() = {r}, expected {}", vis - pos)),
                Err(pi) => return Viol::new("C11/panic/Bits/remaining", pi.message),
            }
        }
    }
    ctx.nontrivial = ok_ops >= 2;
    None
}
