//! Front-end environment layer (DESIGN 5.C12, 5.C14): a simulated directory of module files feeding
//! the real tokenizer / parser / resolver / model converters. `Converter::load_file`'s own four lines
//! (read_to_string, tokenise, parse, push) are re-stated here; `Converter` itself is not executed.

use crate::choices::Lane;
use crate::engine::*;
use crate::guard::guard;
use asn1rs::model::asn::MultiModuleResolver;
use asn1rs::model::parse::Tokenizer;
use asn1rs::model::protobuf::ToProtobufModel;
use asn1rs::model::Model;

include!(concat!(env!("OUT_DIR"), "/corpus_gen.rs"));

pub const SANCTIONED_PANIC: &str = "The file has unclosed comment blocks. Nested comment blocks are counted.";

const VOCAB: &[&str] = &[
    "{", "}", "(", ")", "[", "]", ",", "...", "::=", "..", ":", ";", "=", "/*", "*/", "--", "|", "<", ".", "\"", "'", "-",
    "SEQUENCE", "SET", "OF", "CHOICE", "ENUMERATED", "INTEGER", "BOOLEAN", "NULL", "OCTET", "BIT", "STRING", "UTF8String", "IA5String",
    "NumericString", "PrintableString", "VisibleString", "SIZE", "OPTIONAL", "DEFAULT", "TRUE", "FALSE", "MIN", "MAX", "BEGIN", "END",
    "DEFINITIONS", "AUTOMATIC", "EXPLICIT", "IMPLICIT", "TAGS", "IMPORTS", "FROM", "EXPORTS", "ALL", "WITH", "COMPONENTS", "COMPONENT",
    "PRESENT", "ABSENT", "UNIVERSAL", "APPLICATION", "PRIVATE", "OBJECT", "IDENTIFIER", "Foo", "Bar", "foo", "bar-baz", "a", "B", "0",
    "1", "7", "255", "-1", "65536", "9223372036854775807", "18446744073709551616", "-9223372036854775809", "0x10", "1e9", "'0A'H", "'0101'B", "\"txt\"",
];

/// harness-side token spans (NOT asn1rs's tokenizer): words, numbers, punctuation, strings, comments
fn spans(text: &str) -> Vec<(usize, usize)> {
    let b = text.as_bytes();
    let mut v = Vec::new();
    let mut i = 0;
    while i < b.len() {
        let c = b[i];
        if c.is_ascii_whitespace() {
            i += 1;
            continue;
        }
        let start = i;
        if c.is_ascii_alphanumeric() || c == b'_' {
            while i < b.len() && (b[i].is_ascii_alphanumeric() || b[i] == b'_' || (b[i] == b'-' && i + 1 < b.len() && b[i + 1].is_ascii_alphanumeric())) {
                i += 1;
            }
        } else if c == b'"' {
            i += 1;
            while i < b.len() && b[i] != b'"' {
                i += 1;
            }
            i = (i + 1).min(b.len());
        } else if text[i..].starts_with("::=") || text[i..].starts_with("...") {
            i += 3;
        } else if text[i..].starts_with("..") || text[i..].starts_with("--") || text[i..].starts_with("/*") || text[i..].starts_with("*/") {
            i += 2;
        } else {
            // one (possibly multi-byte) character
            i += 1;
            while i < b.len() && !text.is_char_boundary(i) {
                i += 1;
            }
        }
        v.push((start, i));
    }
    v
}

#[derive(Debug, Clone)]
pub struct TextFault {
    pub kind: &'static str,
    pub text: String,
}

pub const TEXT_KINDS: &[&str] = &["T-TRUNC", "T-DELCH", "T-INSCH", "T-DELTOK", "T-DUPTOK", "T-SWAPTOK", "T-INSTOK", "T-NUM", "T-REPTOK", "T-REFNAME", "T-FROMNAME", "T-PROSE", "T-SPLITTOK"];

fn char_boundary_at(text: &str, mut i: usize) -> usize {
    i = i.min(text.len());
    while i > 0 && !text.is_char_boundary(i) {
        i -= 1;
    }
    i
}

pub fn apply_text_fault(kind: &'static str, text: &mut String, l: &mut Lane<'_>) -> Option<TextFault> {
    let sp = spans(text);
    match kind {
        "T-TRUNC" => {
            if text.is_empty() {
                return None;
            }
            let k = char_boundary_at(text, l.draw(text.len() as u64) as usize);
            text.truncate(k);
            Some(TextFault { kind, text: format!("torn file: first {k} bytes") })
        }
        "T-DELCH" => {
            if text.is_empty() {
                return None;
            }
            let k = char_boundary_at(text, l.draw(text.len() as u64) as usize);
            if k >= text.len() {
                return None;
            }
            let c = text.remove(k);
            Some(TextFault { kind, text: format!("delete char {:?} at {k}", c) })
        }
        "T-INSCH" => {
            let k = char_boundary_at(text, l.draw(text.len() as u64 + 1) as usize);
            const CH: &[char] = &['{', '}', '(', ')', '[', ']', ',', '.', ':', '=', '-', '*', '/', '"', '\'', ' ', '\n', '\t', '\r', '0', '9', 'a', 'Z', '\u{0}', '\u{7f}', 'ä', '€', '\u{feff}', '\u{200b}', ';', '|', '<', '>', '&', '@', '!', '\\'];
            let c = CH[l.draw(CH.len() as u64) as usize];
            text.insert(k, c);
            Some(TextFault { kind, text: format!("insert char {:?} at {k}", c) })
        }
        "T-DELTOK" => {
            if sp.is_empty() {
                return None;
            }
            let (s, e) = sp[l.draw(sp.len() as u64) as usize];
            let t = text[s..e].to_string();
            text.replace_range(s..e, "");
            Some(TextFault { kind, text: format!("delete token {:?} at {s}", t) })
        }
        "T-DUPTOK" => {
            if sp.is_empty() {
                return None;
            }
            let (s, e) = sp[l.draw(sp.len() as u64) as usize];
            let t = format!(" {}", &text[s..e]);
            text.insert_str(e, &t);
            Some(TextFault { kind, text: format!("duplicate token {:?} at {s}", t.trim()) })
        }
        "T-SWAPTOK" => {
            if sp.len() < 2 {
                return None;
            }
            let i = l.draw(sp.len() as u64 - 1) as usize;
            let j = if l.draw(3) == 0 { l.draw(sp.len() as u64) as usize } else { i + 1 };
            let (i, j) = if i <= j { (i, j) } else { (j, i) };
            if i == j {
                return None;
            }
            let (s1, e1) = sp[i];
            let (s2, e2) = sp[j];
            let a = text[s1..e1].to_string();
            let b = text[s2..e2].to_string();
            text.replace_range(s2..e2, &a);
            text.replace_range(s1..e1, &b);
            Some(TextFault { kind, text: format!("swap tokens {:?} and {:?}", a, b) })
        }
        "T-INSTOK" => {
            let at = if sp.is_empty() { 0 } else { sp[l.draw(sp.len() as u64) as usize].0 };
            let t = VOCAB[l.draw(VOCAB.len() as u64) as usize];
            text.insert_str(at, &format!("{t} "));
            Some(TextFault { kind, text: format!("insert token {:?} at {at}", t) })
        }
        "T-SPLITTOK" => {
            // white space typed INSIDE a token: a literal wrapped by an editor ('1000 0000'B, a long string), an
            // identifier or number broken in two
            let cand: Vec<(usize, usize)> = sp.iter().copied().filter(|(s, e)| e - s >= 2).collect();
            if cand.is_empty() {
                return None;
            }
            let (s, e) = cand[l.draw(cand.len() as u64) as usize];
            let k = char_boundary_at(text, s + 1 + l.draw((e - s - 1) as u64) as usize);
            if k <= s || k >= e {
                return None;
            }
            const WS: &[&str] = &[" ", "\n", "\t", "\r\n", "  ", "\n    "];
            let w = WS[l.draw(WS.len() as u64) as usize];
            let tok = text[s..e].to_string();
            text.insert_str(k, w);
            Some(TextFault { kind, text: format!("white space {:?} inside token {:?} at {k}", w, tok) })
        }
        "T-PROSE" => {
            // pasted prose / a comment that lost its `--`: ONE long token (no ASCII white space) with
            // multi-byte characters at drawn byte offsets - what error messages that quote or abbreviate the
            // offending token have to cope with
            const MB: &[&str] = &["ä", "€", "\u{a0}", "本", "“", "\u{1f600}", "ß"];
            let mut t = String::new();
            for _ in 0..1 + l.draw(3) {
                for _ in 0..l.draw(48) {
                    t.push((b'a' + l.draw(26) as u8) as char);
                }
                t.push_str(MB[l.draw(MB.len() as u64) as usize]);
            }
            for _ in 0..l.draw(8) {
                t.push((b'a' + l.draw(26) as u8) as char);
            }
            let (s, e) = if sp.is_empty() { (0, 0) } else { sp[l.draw(sp.len() as u64) as usize] };
            if l.draw(2) == 0 && e > s {
                text.replace_range(s..e, &t);
            } else {
                text.insert_str(s, &format!("{t} "));
            }
            Some(TextFault { kind, text: format!("long token with multi-byte characters {:?} ({} bytes) at {s}", t, t.len()) })
        }
        "T-REPTOK" => {
            if sp.is_empty() {
                return None;
            }
            let (s, e) = sp[l.draw(sp.len() as u64) as usize];
            let old = text[s..e].to_string();
            // often: another token of the same module (creates dangling / cyclic references)
            let t = if l.draw(2) == 0 { let (a, b) = sp[l.draw(sp.len() as u64) as usize]; text[a..b].to_string() } else { VOCAB[l.draw(VOCAB.len() as u64) as usize].to_string() };
            text.replace_range(s..e, &t);
            Some(TextFault { kind, text: format!("replace token {:?} by {:?}", old, t) })
        }
        "T-REFNAME" => {
            // a type position (the token after `::=`, `OF`, or a component name) receives the name of a
            // definition of the same module: dangling, self and cyclic references (copy/paste typos)
            let defs: Vec<&str> = sp.windows(2).filter(|w| &text[w[1].0..w[1].1] == "::=").map(|w| &text[w[0].0..w[0].1]).filter(|n| n.chars().next().map(|c| c.is_ascii_uppercase()).unwrap_or(false)).collect();
            let slots: Vec<usize> = (1..sp.len()).filter(|i| matches!(&text[sp[i - 1].0..sp[i - 1].1], "::=" | "OF") || (text[sp[*i].0..sp[*i].1].chars().next().map(|c| c.is_ascii_uppercase()).unwrap_or(false) && text[sp[i - 1].0..sp[i - 1].1].chars().next().map(|c| c.is_ascii_lowercase()).unwrap_or(false))).collect();
            if defs.is_empty() || slots.is_empty() {
                return None;
            }
            let name = defs[l.draw(defs.len() as u64) as usize].to_string();
            let (s, e) = sp[slots[l.draw(slots.len() as u64) as usize]];
            let old = text[s..e].to_string();
            text.replace_range(s..e, &name);
            Some(TextFault { kind, text: format!("type position {:?} -> reference {:?}", old, name) })
        }
        "T-FROMNAME" => {
            // the module name behind FROM becomes the module's own name or the name of another module
            // known to the corpus (an import typo: self imports and import cycles between modules)
            let froms: Vec<usize> = (1..sp.len()).filter(|i| &text[sp[i - 1].0..sp[i - 1].1] == "FROM").collect();
            if froms.is_empty() {
                return None;
            }
            let own = sp.first().map(|(s, e)| text[*s..*e].to_string()).unwrap_or_default();
            const OTHERS: &[&str] = &["Importer", "Provider", "Plain", "MutualA", "MutualB", "ZooScalars", "Recursive"];
            let name = if l.draw(2) == 0 { own } else { OTHERS[l.draw(OTHERS.len() as u64) as usize].to_string() };
            let (s, e) = sp[froms[l.draw(froms.len() as u64) as usize]];
            let old = text[s..e].to_string();
            text.replace_range(s..e, &name);
            Some(TextFault { kind, text: format!("FROM {:?} -> FROM {:?}", old, name) })
        }
        "T-NUM" => {
            let nums: Vec<(usize, usize)> = sp.iter().copied().filter(|(s, e)| text[*s..*e].bytes().all(|c| c.is_ascii_digit())).collect();
            if nums.is_empty() {
                return None;
            }
            let (s, e) = nums[l.draw(nums.len() as u64) as usize];
            const REP: &[&str] = &["", "99999999999999999999999999", "-1", "-9223372036854775809", "18446744073709551615", "9223372036854775808", "abc", "0x1F", "1.5", "00", "-", "4294967296", "MAX", "MIN"];
            let r = REP[l.draw(REP.len() as u64) as usize];
            let old = text[s..e].to_string();
            text.replace_range(s..e, r);
            Some(TextFault { kind, text: format!("number {old} -> {:?}", r) })
        }
        _ => None,
    }
}

#[derive(Debug, Default, Clone)]
pub struct StageReach {
    pub tokens: usize,
    pub parsed: usize,
    pub resolved: bool,
    pub rust: bool,
    pub protobuf: bool,
    /// error values that were formatted with Display and Debug without a panic
    pub errors_formatted: usize,
}

/// pushes a set of module texts through the whole front end; Err = panic that is not sanctioned
pub fn pipeline(texts: &[String]) -> Result<StageReach, (String, crate::guard::PanicInfo)> {
    let mut reach = StageReach::default();
    let mut resolver = MultiModuleResolver::default();
    let mut single = Vec::new();
    for t in texts {
        // Converter::load_file re-stated: tokenise, parse, push
        let tokens = match guard(|| Tokenizer.parse(t)) {
            Ok(t) => t,
            Err(pi) => {
                if pi.message == SANCTIONED_PANIC {
                    continue;
                }
                return Err(("tokenize".into(), pi));
            }
        };
        reach.tokens += tokens.len();
        let model = match guard(|| Model::try_from(tokens)) {
            Ok(Ok(m)) => m,
            Ok(Err(e)) => {
                // "an error value carrying the offending token": what a build script does with it is print it
                if let Err(pi) = guard(|| (format!("{e}"), format!("{e:?}"))) {
                    return Err(("parse-error-display".into(), pi));
                }
                reach.errors_formatted += 1;
                continue;
            }
            Err(pi) => return Err(("parse".into(), pi)),
        };
        reach.parsed += 1;
        single.push(model.clone());
        resolver.push(model);
    }
    if reach.parsed == 0 {
        return Ok(reach);
    }
    // single-module path (what asn_to_rust! does)
    for m in &single {
        match guard(|| m.try_resolve()) {
            Ok(Ok(r)) => {
                match guard(|| r.to_rust()) {
                    Ok(rust) => {
                        reach.rust = true;
                        match guard(|| rust.to_protobuf()) {
                            Ok(_) => reach.protobuf = true,
                            Err(pi) => return Err(("to_protobuf".into(), pi)),
                        }
                    }
                    Err(pi) => return Err(("to_rust".into(), pi)),
                }
                reach.resolved = true;
            }
            Ok(Err(e)) => {
                if let Err(pi) = guard(|| (format!("{e}"), format!("{e:?}"))) {
                    return Err(("resolve-error-display".into(), pi));
                }
                reach.errors_formatted += 1;
            }
            Err(pi) => return Err(("try_resolve".into(), pi)),
        }
    }
    // multi-module path (what Converter::to_rust / to_protobuf do)
    match guard(|| resolver.try_resolve_all()) {
        Ok(Ok(models)) => {
            reach.resolved = true;
            let scope: Vec<_> = models.iter().collect();
            for m in &models {
                match guard(|| m.to_rust_with_scope(&scope[..])) {
                    Ok(rust) => {
                        reach.rust = true;
                        match guard(|| rust.to_protobuf()) {
                            Ok(_) => reach.protobuf = true,
                            Err(pi) => return Err(("to_protobuf(scope)".into(), pi)),
                        }
                    }
                    Err(pi) => return Err(("to_rust_with_scope".into(), pi)),
                }
            }
        }
        Ok(Err(e)) => {
            if let Err(pi) = guard(|| (format!("{e}"), format!("{e:?}"))) {
                return Err(("resolve-error-display".into(), pi));
            }
            reach.errors_formatted += 1;
        }
        Err(pi) => return Err(("try_resolve_all".into(), pi)),
    }
    Ok(reach)
}

pub fn corpus() -> Vec<(&'static str, &'static str)> {
    let mut v: Vec<(&'static str, &'static str)> = Vec::new();
    for (stem, _m, text) in crate::zoo::ZOO_TEXTS {
        // the chain modules are near-duplicates: a few are enough here
        if stem.starts_with("chain_") && !(stem.ends_with("v3") || stem.ends_with("v0")) {
            continue;
        }
        v.push((stem, text));
    }
    for (name, text) in CORPUS_TEXTS {
        v.push((name, text));
    }
    v
}

fn run_pipeline_checked(ctx: &mut RunCtx<'_>, texts: &[String], what: &str) -> Option<Violation> {
    if ctx.is_lifted("dry-no-pipeline") {
        // harness aid: shows the input of a run whose pipeline kills the process (`sim tape`)
        ctx.note(|| format!("{what}: input that would enter the pipeline:\n{}", texts.join("\n-----\n")));
        return None;
    }
    match pipeline(texts) {
        Ok(reach) => {
            ctx.counters.inc("c14.pipeline_runs");
            if reach.tokens >= 10 {
                ctx.nontrivial = true;
            }
            if reach.parsed > 0 {
                ctx.counters.inc("c14.reached.parse_ok");
            }
            if reach.resolved {
                ctx.counters.inc("c14.reached.resolve_ok");
            }
            if reach.rust {
                ctx.counters.inc("c14.reached.to_rust");
            }
            if reach.protobuf {
                ctx.counters.inc("c14.reached.to_protobuf");
            }
            ctx.counters.add("c14.error_values_formatted", reach.errors_formatted as u64);
            let d = (reach.tokens as u64) << 8 | (reach.parsed as u64) << 4 | (reach.resolved as u64) << 2 | (reach.rust as u64) << 1 | reach.protobuf as u64;
            ctx.log.ev("F", "pipeline", d, || format!("{what}: {:?}", reach));
            None
        }
        Err((stage, pi)) => {
            ctx.log.ev("F", "pipeline-panic", 0, || format!("{what}: {stage} panicked {}", pi.sig()));
            Some(Violation {
                signature: format!("C14/panic/{stage}/{}", pi.sig()),
                detail: format!("{what}: stage {stage} panicked: {} ({}); input:\n{}", pi.message, pi.location, texts.iter().map(|t| t.chars().take(1500).collect::<String>()).collect::<Vec<_>>().join("\n-----\n")),
            })
        }
    }
}

pub fn run_c14(ctx: &mut RunCtx<'_>) -> Option<Violation> {
    let corpus = corpus();
    let lifted: Vec<String> = ctx.lifted.to_vec();
    let is_lifted = move |f: &str| lifted.iter().any(|l| l == f || l == "all");
    let mode = ctx.ch.draw(0, 20);
    if mode == 0 {
        // T-SOUP: random token sequence
        let mut l = Lane::new(ctx.ch, 1);
        let n = l.draw(60) as usize;
        let mut s = String::new();
        if l.draw(2) == 0 {
            s.push_str("Soup DEFINITIONS AUTOMATIC TAGS ::= BEGIN ");
        }
        for _ in 0..n {
            s.push_str(VOCAB[l.draw(VOCAB.len() as u64) as usize]);
            s.push(if l.draw(8) == 0 { '\n' } else { ' ' });
        }
        if l.draw(2) == 0 {
            s.push_str(" END");
        }
        ctx.counters.inc("fault.T-SOUP");
        ctx.note(|| format!("soup: {s}"));
        if !is_lifted("D14") && has_type_cycle(&s) {
            ctx.counters.inc("known.D14.redirected_draws");
            return None;
        }
        return run_pipeline_checked(ctx, &[s], "token soup");
    }
    if mode == 1 && ctx.tier == Tier::Thorough || mode == 1 && ctx.ch.draw(0, 4) == 0 {
        return enumerate_fault_points(ctx, &corpus, &is_lifted);
    }
    if mode == 2 {
        // T-NEST: a definition nested k levels deep is added to a corpus module (before its last END),
        // optionally followed by one ordinary text fault. Every stage of the pipeline is recursive over
        // the nesting of a type. The two deepest classes exhausted the stack of the recursive descent
        // parser until it got a nesting limit (DESIGN 6.2, D19); 63..65 sit around that limit.
        let mut l = Lane::new(ctx.ch, 1);
        let (name, text) = corpus[l.draw(corpus.len() as u64) as usize];
        let mut text = text.to_string();
        const DEPTHS: &[usize] = &[2, 5, 17, 60, 63, 64, 65, 200, 600, 5_000, 40_000];
        let k = DEPTHS[l.draw(DEPTHS.len() as u64) as usize];
        let form = l.draw(6);
        let (open, leaf, close): (&str, &str, &str) = match form {
            0 => ("SEQUENCE OF ", "INTEGER (0..7)", ""),
            1 => ("SET (SIZE(0..3)) OF ", "BOOLEAN", ""),
            2 => ("SEQUENCE { f ", "UTF8String", " OPTIONAL, ... }"),
            3 => ("CHOICE { c ", "NULL", ", d BOOLEAN }"),
            4 => ("SET { s [1] ", "OCTET STRING", ", t [0] INTEGER DEFAULT 3 }"),
            // mixed: list of a structure with one alternative being the next level
            _ => ("SEQUENCE OF CHOICE { x SEQUENCE { y ", "ENUMERATED { a, b }", " } }"),
        };
        let def = format!("\nVerifNest ::= {}{}{}\n", open.repeat(k), leaf, close.repeat(k));
        let sp = spans(&text);
        let at = sp.iter().rev().find(|(s, e)| &text[*s..*e] == "END").map(|(s, _)| *s).unwrap_or(text.len());
        text.insert_str(at, &def);
        ctx.counters.inc("fault.T-NEST");
        ctx.counters.inc(&format!("c14.nest.depth_{k}"));
        let mut texts = vec![text];
        let mut extra = None;
        if l.draw(3) == 0 {
            let kind = TEXT_KINDS[l.draw(TEXT_KINDS.len() as u64) as usize];
            extra = apply_text_fault(kind, &mut texts[0], &mut l);
            if let Some(a) = &extra {
                ctx.counters.inc(&format!("fault.{}", a.kind));
            }
        }
        ctx.note(|| format!("module {name}; T-NEST: form {form} depth {k}; then {:?}", extra.as_ref().map(|a| format!("{}: {}", a.kind, a.text))));
        if !is_lifted("D14") && has_type_cycle(&texts[0]) {
            ctx.counters.inc("known.D14.redirected_draws");
            return None;
        }
        ctx.log.ev("E", "nest", k as u64, || format!("{name} form {form}"));
        return run_pipeline_checked(ctx, &texts, &format!("{name} + {k} nesting levels (form {form})"));
    }
    // 1-3 modules, 1-4 text faults
    let nmod = match ctx.ch.draw(0, 6) {
        0 => 2,
        1 => 3,
        _ => 1,
    };
    let mut texts: Vec<String> = Vec::new();
    let mut names = Vec::new();
    for _ in 0..nmod {
        let (name, text) = corpus[ctx.ch.draw(1, corpus.len() as u64) as usize];
        names.push(name);
        texts.push(text.to_string());
    }
    let nfaults = 1 + ctx.ch.draw(0, 4) as usize;
    let enabled = crate::faults::draw_enabled(&mut Lane::new(ctx.ch, 0), TEXT_KINDS);
    let mut applied = Vec::new();
    for _ in 0..nfaults {
        let kind = enabled[ctx.ch.draw(0, enabled.len() as u64) as usize];
        let which = ctx.ch.draw(0, texts.len() as u64) as usize;
        if let Some(a) = apply_text_fault(kind, &mut texts[which], &mut Lane::new(ctx.ch, 1)) {
            ctx.counters.inc(&format!("fault.{}", a.kind));
            applied.push(a);
        }
    }
    if nmod > 1 {
        ctx.counters.inc("probe.multi_module_scope");
    }
    ctx.note(|| format!("modules {:?}; faults {:?}", names, applied.iter().map(|a| format!("{}: {}", a.kind, a.text)).collect::<Vec<_>>()));
    if !is_lifted("D14") && texts.iter().any(|t| has_type_cycle(t)) {
        ctx.counters.inc("known.D14.redirected_draws");
        return None;
    }
    ctx.log.ev("E", "faults", applied.len() as u64, || format!("{:?}", names));
    run_pipeline_checked(ctx, &texts, &format!("{:?}", names))
}

/// thorough: for one corpus module every truncation point, deletion of every token, swap of every
/// adjacent token pair (exhaustive over fault position for that module)
fn enumerate_fault_points(ctx: &mut RunCtx<'_>, corpus: &[(&'static str, &'static str)], is_lifted: &dyn Fn(&str) -> bool) -> Option<Violation> {
    // small modules only (cost is quadratic)
    let small: Vec<&(&'static str, &'static str)> = corpus.iter().filter(|(_, t)| t.len() <= 1500).collect();
    if small.is_empty() {
        return None;
    }
    let (name, text) = *small[ctx.ch.draw(1, small.len() as u64) as usize];
    let which = ctx.ch.draw(1, 3);
    ctx.note(|| format!("fault-point enumeration kind {which} over module {name} ({} bytes)", text.len()));
    let sp = spans(text);
    let mut points = 0u64;
    let mut check = |ctx: &mut RunCtx<'_>, t: String, what: String| -> Option<Violation> {
        if !is_lifted("D14") && has_type_cycle(&t) {
            ctx.counters.inc("known.D14.redirected_draws");
            return None;
        }
        run_pipeline_checked(ctx, &[t], &what)
    };
    match which {
        0 => {
            for k in 0..=text.len() {
                if !text.is_char_boundary(k) {
                    continue;
                }
                points += 1;
                if let Some(v) = check(ctx, text[..k].to_string(), format!("{name} truncated at {k}")) {
                    return Some(v);
                }
            }
            ctx.counters.add("fault.T-TRUNC", points);
        }
        1 => {
            for (s, e) in &sp {
                let mut t = text.to_string();
                t.replace_range(*s..*e, "");
                points += 1;
                if let Some(v) = check(ctx, t, format!("{name} without token at {s}")) {
                    return Some(v);
                }
            }
            ctx.counters.add("fault.T-DELTOK", points);
        }
        _ => {
            for w in sp.windows(2) {
                let (s1, e1) = w[0];
                let (s2, e2) = w[1];
                let mut t = text.to_string();
                let a = text[s1..e1].to_string();
                let b = text[s2..e2].to_string();
                t.replace_range(s2..e2, &a);
                t.replace_range(s1..e1, &b);
                points += 1;
                if let Some(v) = check(ctx, t, format!("{name} with tokens at {s1} and {s2} swapped")) {
                    return Some(v);
                }
            }
            ctx.counters.add("fault.T-SWAPTOK", points);
        }
    }
    ctx.counters.inc("probe.fault_point_enumeration_modules");
    ctx.counters.add("c14.enumerated_fault_points", points);
    None
}

/// D14 domain predicate: the text contains a type definition cycle made of plain type references
/// (`A ::= A`, `A ::= B  B ::= A`, also through `SEQUENCE OF` / `SET OF` chains of references).
/// Conservative textual approximation, only used while D14 is an open finding.
pub fn has_type_cycle(text: &str) -> bool {
    let sp = spans(text);
    let tok: Vec<&str> = sp.iter().map(|(s, e)| &text[*s..*e]).collect();
    // edges Name -> Ref for definitions of the form `Name ::= [tag] [SEQUENCE|SET [(..)] OF]* Ref`
    let mut edges: Vec<(&str, &str)> = Vec::new();
    let mut i = 0;
    while i + 2 < tok.len() + 2 && i < tok.len() {
        if i + 1 < tok.len() && tok[i + 1] == "::=" {
            let name = tok[i];
            let mut j = i + 2;
            // skip tags and SEQUENCE OF prefixes
            loop {
                if j < tok.len() && tok[j] == "[" {
                    while j < tok.len() && tok[j] != "]" {
                        j += 1;
                    }
                    j += 1;
                    if j < tok.len() && (tok[j] == "EXPLICIT" || tok[j] == "IMPLICIT") {
                        j += 1;
                    }
                } else if j + 1 < tok.len() && (tok[j] == "SEQUENCE" || tok[j] == "SET") && (tok[j + 1] == "OF" || tok[j + 1] == "(") {
                    j += 1;
                    if tok[j] == "(" {
                        let mut depth = 0;
                        while j < tok.len() {
                            if tok[j] == "(" {
                                depth += 1;
                            }
                            if tok[j] == ")" {
                                depth -= 1;
                                if depth == 0 {
                                    break;
                                }
                            }
                            j += 1;
                        }
                        j += 1;
                    }
                    if j < tok.len() && tok[j] == "OF" {
                        j += 1;
                    } else {
                        break;
                    }
                } else {
                    break;
                }
            }
            if j < tok.len() && tok[j].chars().next().map(|c| c.is_ascii_alphabetic()).unwrap_or(false) {
                edges.push((name, tok[j]));
            }
        }
        i += 1;
    }
    // any cycle among the edges?
    for (start, _) in &edges {
        let mut cur = *start;
        for _ in 0..=edges.len() {
            match edges.iter().find(|(a, _)| *a == cur) {
                Some((_, b)) => {
                    if b == start {
                        return true;
                    }
                    cur = b;
                }
                None => break,
            }
        }
    }
    false
}
