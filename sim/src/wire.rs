//! Wire layer, shared parts: producers with long-lived writers, deliveries, consumers (DESIGN 2.2).

use crate::choices::Lane;
use crate::engine::*;
use crate::gen::GenCfg;
use crate::guard::guard;
use crate::tree::Tree;
use crate::zoo::*;
use asn1rs::prelude::*;
use asn1rs::protocol::per::ErrorKind;

pub struct Msg {
    pub ty: usize,
    pub val: Val,
    pub tree: Tree,
    pub start: usize,
    pub end: usize,
}

#[derive(Clone)]
pub struct Delivery {
    pub bytes: Vec<u8>,
    pub bit_len: usize,
    /// number of model messages completely contained
    pub complete: usize,
}

pub fn kind_name(k: &ErrorKind) -> &'static str {
    match k {
        ErrorKind::FromUtf8Error(_) => "FromUtf8Error",
        ErrorKind::InvalidString(..) => "InvalidString",
        ErrorKind::UnsupportedOperation(_) => "UnsupportedOperation",
        ErrorKind::InsufficientSpaceInDestinationBuffer(_) => "InsufficientSpaceInDestinationBuffer",
        ErrorKind::InsufficientDataInSourceBuffer(_) => "InsufficientDataInSourceBuffer",
        ErrorKind::LengthDeterminantExceedsLimit { .. } => "LengthDeterminantExceedsLimit",
        ErrorKind::InvalidChoiceIndex(..) => "InvalidChoiceIndex",
        ErrorKind::ExtensionFieldsInconsistent(_) => "ExtensionFieldsInconsistent",
        ErrorKind::ValueNotInRange(..) => "ValueNotInRange",
        ErrorKind::ValueExceedsMaxInt => "ValueExceedsMaxInt",
        ErrorKind::ValueIsNegativeButExpectedUnsigned(_) => "ValueIsNegativeButExpectedUnsigned",
        ErrorKind::SizeNotInRange(..) => "SizeNotInRange",
        ErrorKind::BitLenNotInRange(..) => "BitLenNotInRange",
        ErrorKind::OptFlagsExhausted => "OptFlagsExhausted",
        ErrorKind::EndOfStream => "EndOfStream",
    }
}

/// error kind with payload but without backtraces (stable across builds)
pub fn kind_full(k: &ErrorKind) -> String {
    match k {
        ErrorKind::InsufficientSpaceInDestinationBuffer(_) => "InsufficientSpaceInDestinationBuffer".into(),
        ErrorKind::InsufficientDataInSourceBuffer(_) => "InsufficientDataInSourceBuffer".into(),
        ErrorKind::LengthDeterminantExceedsLimit { length, limit, .. } => {
            format!("LengthDeterminantExceedsLimit({length},{limit})")
        }
        other => format!("{:?}", other),
    }
}

/// classes of a value tree that matter for domain predicates of known findings
#[derive(Default, Debug, Clone, Copy)]
pub struct TreeClass {
    /// SEQUENCE OF / SET OF / restricted string with >= 16384 elements (D5)
    pub big_unfragmented: bool,
    /// BIT STRING with >= 16384 bits (D6)
    pub big_bits: bool,
    /// OCTET STRING / UTF8String with >= 16384 octets (implemented fragmentation)
    pub big_fragmented: bool,
    pub max_len: u64,
    /// a present extension addition or a selected extension alternative (encoded as open type)
    pub has_open_type: bool,
    /// crude upper estimate of the encoding size in octets
    pub est_octets: u64,
}

pub fn classify(t: &Tree) -> TreeClass {
    let mut c = TreeClass::default();
    t.walk(&mut |n| match n {
        Tree::Seq { ext_after: Some(e), fields, .. } => {
            c.est_octets += 2 + fields.len() as u64 / 8;
            for f in fields.iter().skip(*e as usize + 1) {
                match f {
                    Tree::Opt(Some(_)) | Tree::Def { is_default: false, .. } => c.has_open_type = true,
                    _ => {}
                }
            }
        }
        Tree::Seq { fields, .. } => c.est_octets += 1 + fields.len() as u64 / 8,
        Tree::Choice { idx, std, ext, .. } => {
            c.est_octets += 4;
            if *ext && idx >= std {
                c.has_open_type = true;
            }
        }
        Tree::Num { .. } => c.est_octets += 10,
        Tree::Enum { .. } => c.est_octets += 3,
        Tree::List { items, .. } => {
            c.est_octets += 10 + items.len() as u64 / 16384 * 2;
            c.max_len = c.max_len.max(items.len() as u64);
            if items.len() >= 16384 {
                c.big_unfragmented = true;
            }
        }
        Tree::Str { kind, v } => {
            let n = if *kind == crate::tree::StrKind::Utf8 { v.len() } else { v.chars().count() } as u64;
            c.est_octets += 10 + n + n / 16384 * 2;
            c.max_len = c.max_len.max(n);
            if n >= 16384 {
                if *kind == crate::tree::StrKind::Utf8 {
                    c.big_fragmented = true;
                } else {
                    c.big_unfragmented = true;
                }
            }
        }
        Tree::Octets(v) => {
            c.est_octets += 10 + v.len() as u64 + v.len() as u64 / 16384 * 2;
            c.max_len = c.max_len.max(v.len() as u64);
            if v.len() >= 16384 {
                c.big_fragmented = true;
            }
        }
        Tree::Bits(_, n) => {
            c.est_octets += 10 + *n / 8;
            c.max_len = c.max_len.max(*n);
            if *n >= 16384 {
                c.big_bits = true;
            }
        }
        _ => c.est_octets += 1,
    });
    c
}

impl TreeClass {
    pub fn label(&self) -> &'static str {
        if self.big_unfragmented {
            "len>=16384/list-or-restricted-string"
        } else if self.has_open_type && self.est_octets >= 16384 {
            "open-type-in-message>=16384-octets"
        } else if self.big_bits {
            "len>=16384/bitstring"
        } else if self.big_fragmented {
            "len>=16384/octets-or-utf8"
        } else {
            "small"
        }
    }
}

/// generation knobs for one run of the wire layer, drawn swarm style from lane 0
pub fn draw_gen_cfg(lane: &mut Lane<'_>, ctx_lifted: &dyn Fn(&str) -> bool, force_valid: bool) -> GenCfg {
    let size_class = match lane.draw(20) {
        0..=11 => 0,
        12..=17 => 1,
        _ => 2,
    };
    let valid = force_valid || lane.draw(3) == 0;
    GenCfg {
        valid,
        size_class,
        cap_unfragmented: if ctx_lifted("D5") { 140_000 } else { 16_383 },
        cap_fragmented: 140_000,
        budget: match size_class {
            0 => 24,
            1 => 64,
            _ => 96,
        },
        additions_absent: false,
    }
}

/// adjusts caps for BIT STRING separately (D6) -- the generator has one cap for unfragmented kinds,
/// so a value that ends up with a big bit string while D6 is not lifted is re-drawn by the caller.
pub fn in_known_broken_domain(c: &TreeClass, lifted: &dyn Fn(&str) -> bool) -> Option<&'static str> {
    if c.big_unfragmented && !lifted("D5") {
        return Some("D5");
    }
    if c.big_bits && !lifted("D6") {
        return Some("D6");
    }
    None
}

/// D7: an open-type payload (extension addition / extension alternative) of >= 16384 octets.
/// Evaluated soundly on the whole message: if the message contains an open type and its complete
/// encoding has >= 16384 octets, some payload *may* be that large. `encoded_bits` measures exactly.
pub fn maybe_in_d7_domain(c: &TreeClass, lifted: &dyn Fn(&str) -> bool) -> bool {
    c.has_open_type && c.est_octets >= 16384 && !lifted("D7")
}

pub struct Producer {
    pub writer: UperWriter,
    pub stream: Vec<Msg>,
    /// copy of the writer content after the last successful append
    pub good: Vec<u8>,
    pub good_bits: usize,
}

impl Producer {
    pub fn new() -> Self {
        Producer { writer: UperWriter::default(), stream: Vec::new(), good: Vec::new(), good_bits: 0 }
    }
}

pub enum AppendOutcome {
    Ok,
    EncodeErr(String),
    EncodePanic(String),
}

/// appends one message to the producer's long-lived writer
pub fn append(ctx: &mut RunCtx<'_>, p: &mut Producer, ty: usize, val: Val, tree: Tree) -> AppendOutcome {
    let ops = &zoo().types[ty];
    let start = p.writer.bit_len();
    let r = guard(|| (ops.uper_write)(&val, &mut p.writer));
    match r {
        Ok(Ok(())) => {
            let end = p.writer.bit_len();
            // D-oracle 3: prefix stability
            let content = p.writer.byte_content();
            if !prefix_equal(&p.good, content, start.min(p.good_bits)) {
                ctx.counters.inc("diag.C01.prefix_changed_by_append");
            }
            if content.len() != (end + 7) / 8 {
                ctx.counters.inc("diag.C01.content_len_ne_ceil_bits");
            }
            p.good.clear();
            p.good.extend_from_slice(content);
            p.good_bits = end;
            p.stream.push(Msg { ty, val, tree, start, end });
            AppendOutcome::Ok
        }
        Ok(Err(e)) => AppendOutcome::EncodeErr(kind_name(e.kind()).to_string()),
        Err(pi) => AppendOutcome::EncodePanic(pi.sig()),
    }
}

pub fn prefix_equal(a: &[u8], b: &[u8], bits: usize) -> bool {
    let full = bits / 8;
    if a.len() < full || b.len() < full {
        return false;
    }
    if a[..full] != b[..full] {
        return false;
    }
    let rem = bits % 8;
    if rem == 0 {
        return true;
    }
    if a.len() <= full || b.len() <= full {
        return false;
    }
    let mask = !(0xffu8 >> rem);
    a[full] & mask == b[full] & mask
}

/// copy with slack / padding garbage according to `repr` (W-SLACK): must be invisible to a reader
/// that is given `bit_len`
pub fn represent(bytes: &[u8], bit_len: usize, repr: u64, lane: &mut Lane<'_>) -> Vec<u8> {
    let used = (bit_len + 7) / 8;
    let mut v = bytes[..used.min(bytes.len())].to_vec();
    v.resize(used, 0);
    if repr == 0 {
        return v;
    }
    let fill = |lane: &mut Lane<'_>| -> u8 {
        match repr {
            1 => 0x00,
            2 => 0xff,
            _ => lane.draw(256) as u8,
        }
    };
    if bit_len % 8 != 0 && repr >= 2 {
        let mask = 0xffu8 >> (bit_len % 8);
        let g = fill(lane);
        let last = v.last_mut().unwrap();
        *last = (*last & !mask) | (g & mask);
    }
    let slack = 1 + lane.draw(16);
    for _ in 0..slack {
        let b = fill(lane);
        v.push(b);
    }
    v
}

pub fn eligible_types_c01() -> Vec<usize> {
    // every zoo type; hostile-length types take part with small values
    (0..zoo().types.len()).collect()
}
