mod alloc;
mod c01;
mod c04;
mod c05;
mod c11;
mod c12;
mod c17;
mod c20;
mod faults;
mod frontend;
mod engine;
mod guard;
mod json;
mod parent;
mod runner;
mod wire;
mod zoo;
pub use simcore::{choices, gen, io, trace, tree, treeread};

#[global_allocator]
static GLOBAL: alloc::Counting = alloc::Counting;

use engine::Tier;
use json::J;

fn arg_val(args: &[String], name: &str) -> Option<String> {
    args.iter().position(|a| a == name).and_then(|i| args.get(i + 1)).cloned()
}

fn lifted_of(args: &[String]) -> Vec<String> {
    arg_val(args, "--lift").map(|s| s.split(',').filter(|x| !x.is_empty()).map(str::to_string).collect()).unwrap_or_default()
}

fn main() {
    let args: Vec<String> = std::env::args().collect();
    guard::install_hook();
    let cmd = args.get(1).map(String::as_str).unwrap_or("");
    match cmd {
        "worker" => {
            let a = runner::WorkerArgs {
                prop: arg_val(&args, "--prop").expect("--prop"),
                tier: Tier::parse(&arg_val(&args, "--tier").unwrap_or("quick".into())).expect("tier"),
                seed: arg_val(&args, "--seed").and_then(|s| s.parse().ok()).unwrap_or(1),
                from: arg_val(&args, "--from").and_then(|s| s.parse().ok()).unwrap_or(0),
                to: arg_val(&args, "--to").and_then(|s| s.parse().ok()).unwrap_or(1000),
                lifted: lifted_of(&args),
                hash_out: arg_val(&args, "--hash-out"),
                outcomes_out: arg_val(&args, "--outcomes-out"),
                samples: arg_val(&args, "--samples").and_then(|s| s.parse().ok()).unwrap_or(0),
                watchdog_s: arg_val(&args, "--watchdog").and_then(|s| s.parse().ok()).unwrap_or(20),
                hash_sample: arg_val(&args, "--hash-sample").and_then(|s| s.parse().ok()).unwrap_or(1).max(1),
            };
            let j = runner::worker(&a);
            println!("{}", j.to_string());
        }
        "replay-tape" => {
            // internal: sim replay-tape <file> -> prints JSON with the outcome (used by the parent in a fresh process)
            let path = args.get(2).expect("file");
            let text = std::fs::read_to_string(path).expect("read replay file");
            let j = J::parse(&text).expect("parse replay file");
            let prop = j.get("property").and_then(J::as_str).expect("property").to_string();
            let tier = Tier::parse(j.get("tier").and_then(J::as_str).unwrap_or("quick")).unwrap();
            let lanes = runner::lanes_from_json(j.get("lanes").expect("lanes"));
            let lifted: Vec<String> = j.get("lift").and_then(J::as_arr).map(|a| a.iter().filter_map(|x| x.as_str().map(str::to_string)).collect()).unwrap_or_default();
            runner::start_watchdog(arg_val(&args, "--watchdog").and_then(|s| s.parse().ok()).unwrap_or(30));
            alloc::CURRENT_RUN.store(0, std::sync::atomic::Ordering::Relaxed);
            runner::arm_watchdog();
            let from_seed = matches!(j.get("from_seed"), Some(J::Bool(true)));
            let out = if from_seed {
                let seed = j.get("seed").and_then(J::as_u64).unwrap_or(1);
                let run = j.get("run").and_then(J::as_u64).unwrap_or(0);
                let mut ch = choices::Choices::from_seed(seed, &prop, run);
                let mut counters = engine::Counters::default();
                let o = runner::RunOpts { prop: &prop, tier, record: true, outcomes: false, lifted: &lifted };
                runner::run_once(&o, &mut ch, &mut counters)
            } else {
                runner::replay_tape(&prop, tier, lanes, &lifted)
            };
            let r = J::obj()
                .with("signature", out.violation.as_ref().map(|v| J::str(v.signature.clone())).unwrap_or(J::Null))
                .with("detail", out.violation.as_ref().map(|v| J::str(v.detail.clone())).unwrap_or(J::Null))
                .with("event_hash", J::str(format!("{:016x}", out.event_hash)))
                .with("events", J::arr(out.lines.iter().map(|s| J::str(s.clone()))))
                .with("scenario", J::arr(out.scenario.iter().map(|s| J::str(s.clone()))));
            println!("{}", r.to_string());
        }
        "tape" => {
            // sim tape --prop P --seed S --run R [--lift ...]: prints the tape the run consumes
            let prop = arg_val(&args, "--prop").expect("--prop");
            let seed = arg_val(&args, "--seed").and_then(|s| s.parse().ok()).unwrap_or(1);
            let run = arg_val(&args, "--run").and_then(|s| s.parse().ok()).unwrap_or(0);
            let tier = Tier::parse(&arg_val(&args, "--tier").unwrap_or("quick".into())).expect("tier");
            let lifted = lifted_of(&args);
            let mut ch = choices::Choices::from_seed(seed, &prop, run);
            let mut counters = engine::Counters::default();
            let o = runner::RunOpts { prop: &prop, tier, record: true, outcomes: false, lifted: &lifted };
            let out = runner::run_once(&o, &mut ch, &mut counters);
            println!("{}", J::obj().with("lanes", runner::lanes_json(&out.lanes)).with("events", J::arr(out.lines.iter().map(|s| J::str(s.clone())))).with("scenario", J::arr(out.scenario.iter().map(|s| J::str(s.clone())))).to_string());
            if let Some(f) = arg_val(&args, "--tape-file") {
                // replay a given tape instead of the seed (shows the scenario of a minimised crash replay)
                let text = std::fs::read_to_string(f).expect("tape file");
                let j = J::parse(&text).expect("parse");
                let lanes = runner::lanes_from_json(j.get("lanes").expect("lanes"));
                let out = runner::replay_tape(&prop, tier, lanes, &lifted);
                println!("{}", J::obj().with("scenario", J::arr(out.scenario.iter().map(|s| J::str(s.clone())))).with("events", J::arr(out.lines.iter().map(|s| J::str(s.clone())))).to_pretty());
            }
        }
        "minimize" => {
            // sim minimize <in> <out>: shrink the tape while the same signature persists
            let text = std::fs::read_to_string(args.get(2).expect("in")).expect("read");
            let j = J::parse(&text).expect("parse");
            let prop = j.get("property").and_then(J::as_str).expect("property").to_string();
            let tier = Tier::parse(j.get("tier").and_then(J::as_str).unwrap_or("quick")).unwrap();
            let lanes = runner::lanes_from_json(j.get("lanes").expect("lanes"));
            let sig = j.get("signature").and_then(J::as_str).expect("signature").to_string();
            let lifted: Vec<String> = j.get("lift").and_then(J::as_arr).map(|a| a.iter().filter_map(|x| x.as_str().map(str::to_string)).collect()).unwrap_or_default();
            runner::start_watchdog(300);
            runner::arm_watchdog();
            let budget = arg_val(&args, "--budget").and_then(|s| s.parse().ok()).unwrap_or(3000);
            let before: usize = lanes.iter().map(Vec::len).sum();
            let (min, spent) = runner::minimize(&prop, tier, lanes, &sig, &lifted, budget);
            let after: usize = min.iter().map(Vec::len).sum();
            let mut out = j.clone();
            out.set("lanes", runner::lanes_json(&min));
            out.set("minimisation", J::obj().with("tape_entries_before", J::u(before as u64)).with("tape_entries_after", J::u(after as u64)).with("candidates_executed", J::u(spent as u64)));
            std::fs::write(args.get(3).expect("out"), out.to_pretty()).expect("write");
            println!("{}", J::obj().with("before", J::u(before as u64)).with("after", J::u(after as u64)).to_string());
        }
        "check" | "replay" | "selftest" | "pin" => {
            std::process::exit(parent::main(&args));
        }
        "zoo" => {
            for t in &zoo::zoo().types {
                println!("{} flags={:#x} size_of={}", t.name, t.flags, t.size_of);
            }
        }
        _ => {
            eprintln!("usage: sim worker|check|replay|selftest|zoo ...");
            std::process::exit(2);
        }
    }
}
