//! C05: extension additions are forward/backward compatible across schema versions (DESIGN 5.C05).
//! Multi-party simulation: the sender and the receiver run different versions of one schema chain.

use crate::choices::Lane;
use crate::engine::*;
use crate::gen::GenCfg;
use crate::guard::guard;
use crate::treeread::{NewMode, TreeReadCfg};
use crate::wire::*;
use crate::zoo::*;
use asn1rs::prelude::*;
use std::collections::BTreeMap;
use std::sync::OnceLock;

pub struct Chains {
    /// role ("seq.Wrap") -> zoo index per version
    pub roles: Vec<(String, Vec<usize>)>,
    pub sentinel: usize,
}

static CHAINS: OnceLock<Chains> = OnceLock::new();

pub fn chains() -> &'static Chains {
    CHAINS.get_or_init(|| {
        let z = zoo();
        let mut m: BTreeMap<String, BTreeMap<u32, usize>> = BTreeMap::new();
        for (i, t) in z.types.iter().enumerate() {
            if let Some((name, v)) = &t.chain {
                m.entry(name.clone()).or_default().insert(*v, i);
            }
        }
        let roles = m.into_iter().map(|(k, v)| (k, v.into_values().collect())).collect();
        let sentinel = z.types.iter().position(|t| t.flags & F_SENTINEL != 0).expect("sentinel type");
        Chains { roles, sentinel }
    })
}

const SENTINEL_VALUE: i64 = 0xA5A5_5A5A;

fn sentinel_val() -> Val {
    let z = zoo();
    let c = chains();
    let t = crate::tree::Tree::Seq {
        name: "Sentinel",
        set: false,
        ext_after: None,
        fields: vec![crate::tree::Tree::Num { v: SENTINEL_VALUE, min: None, max: None, ext: false }],
    };
    let mut ch = crate::choices::Choices::from_tape(vec![]);
    (z.types[c.sentinel].from_tree)(&t, Lane::new(&mut ch, 0), TreeReadCfg { mode: NewMode::AllAbsent, gen: GenCfg::small_valid() }).expect("sentinel").0
}

struct Sent {
    /// value at the lower version
    low: Val,
    /// value at the higher version with new additions drawn
    high: Val,
    /// the higher-version view of `low` with every new addition absent
    high_absent: Val,
    /// a CHOICE alternative / ENUMERATED value the lower version does not know was selected
    unknown_selected: bool,
    start: usize,
    end: usize,
}

/// A value of the lower version could not be replayed into the generated type of the higher version
/// although the higher version's text is the lower one's plus appended additions (the chain files are
/// generated that way): the compiler gave the components another order in one of the versions, so the
/// peers put different components at the same position of the encoding (this is how the sorting of SET
/// extension additions by tag showed up; a wire-level demonstration is in the fix: commit).
fn structure_violation(role: &str, lo: usize, hi: usize, lo_name: &str, hi_name: &str, e: &crate::treeread::TreeReadError) -> Violation {
    match e {
        crate::treeread::TreeReadError::Mismatch(m) => Violation {
            signature: format!("C05/version-structure-mismatch/chain={role}"),
            detail: format!("chain {role}: a V{lo} value ({lo_name}) does not fit the component order of the generated V{hi} type ({hi_name}) although V{hi} only appends additions: {m}"),
        },
        other => Violation { signature: "HARNESS/treereader".into(), detail: format!("{:?}", other) },
    }
}

pub fn run(ctx: &mut RunCtx<'_>) -> Option<Violation> {
    let z = zoo();
    let c = chains();
    let lifted: Vec<String> = ctx.lifted.to_vec();
    let is_lifted = move |f: &str| lifted.iter().any(|l| l == f || l == "all");

    let (role, lo, hi, k, new_to_old, size_class) = {
        let mut l0 = Lane::new(ctx.ch, 0);
        let role = l0.draw(c.roles.len() as u64) as usize;
        let n = c.roles[role].1.len() as u64;
        // versions lo < hi
        let lo = l0.draw(n - 1);
        let hi = lo + 1 + l0.draw(n - 1 - lo);
        let k = 1 + l0.draw(6) as usize;
        let new_to_old = l0.draw(2) == 1;
        let size_class = if l0.draw(3) == 0 { 1 } else { 0 };
        (role, lo as usize, hi as usize, k, new_to_old, size_class)
    };
    let (role_name, versions) = &c.roles[role];
    let t_lo = &z.types[versions[lo]];
    let t_hi = &z.types[versions[hi]];
    let gen = GenCfg { valid: true, size_class, cap_unfragmented: 300, cap_fragmented: 300, budget: 32, additions_absent: false };
    ctx.note(|| format!("chain {role_name}: V{lo} ({}) vs V{hi} ({}), {} messages, direction {}", t_lo.name, t_hi.name, k, if new_to_old { "new->old" } else { "old->new" }));
    ctx.counters.inc(if new_to_old { "c05.direction.new_to_old" } else { "c05.direction.old_to_new" });
    // the injected "fault" of this property is the configuration: the peers run different versions
    ctx.counters.inc(if new_to_old { "fault.CFG-VERSION-SKEW.sender-newer" } else { "fault.CFG-VERSION-SKEW.receiver-newer" });
    ctx.counters.add("fault.CFG-VERSION-SKEW.versions-apart", (hi - lo) as u64);
    ctx.counters.inc(&format!("c05.role.{role_name}"));

    // D8 domain predicates (only while listed as open findings)
    //  D8a: receiver knows fewer additions than are PRESENT in the message
    //  D8b: receiver knows MORE additions than were transmitted while at least one was transmitted
    let mut writer = UperWriter::default();
    let mut sent: Vec<Sent> = Vec::new();
    let mut tries = 0;
    while sent.len() < k && tries < k * 6 {
        tries += 1;
        let (low, _) = (t_lo.gen)(Lane::new(ctx.ch, 1), gen);
        let low_tree = (t_lo.tree)(&low);
        let drawn = (t_hi.from_tree)(&low_tree, Lane::new(ctx.ch, 1), TreeReadCfg { mode: NewMode::Draw, gen });
        let (high, stats) = match drawn {
            Ok(x) => x,
            Err(e) => return Some(structure_violation(role_name, lo, hi, t_lo.name, t_hi.name, &e)),
        };
        let mut ch0 = crate::choices::Choices::from_tape(vec![]);
        let high_absent = match (t_hi.from_tree)(&low_tree, Lane::new(&mut ch0, 0), TreeReadCfg { mode: NewMode::AllAbsent, gen }) {
            Ok(v) => v.0,
            Err(e) => return Some(structure_violation(role_name, lo, hi, t_lo.name, t_hi.name, &e)),
        };
        let high_tree = (t_hi.tree)(&high);
        // domain predicates
        if new_to_old {
            if stats.additions_drawn_present > 0 && !is_lifted("D8") {
                ctx.counters.inc("known.D8.redirected_draws");
                continue;
            }
        } else {
            let low_class = crate::c05::additions_present(&low_tree);
            if low_class && !is_lifted("D8") {
                // the lower version transmits additions while the receiver knows more of them
                ctx.counters.inc("known.D8.redirected_draws");
                continue;
            }
        }
        let (val, ops) = if new_to_old { (&high, t_hi) } else { (&low, t_lo) };
        let start = writer.bit_len();
        // scratch first: a refused value must not leave partial bits in the stream
        let mut scratch = UperWriter::default();
        match guard(|| (ops.uper_write)(val, &mut scratch)) {
            Ok(Ok(())) => {}
            Ok(Err(e)) => {
                ctx.counters.inc(&format!("c05.sender_refused.{}", kind_name(e.kind())));
                continue;
            }
            Err(pi) => {
                ctx.counters.inc(&format!("diag.C05.encode_panic@{}", pi.sig()));
                continue;
            }
        }
        match guard(|| (ops.uper_write)(val, &mut writer)) {
            Ok(Ok(())) => {}
            _ => return Some(Violation { signature: "HARNESS/encode-differs-from-scratch".into(), detail: String::new() }),
        }
        let end = writer.bit_len();
        if stats.additions_drawn_present > 0 {
            ctx.counters.inc("probe.unknown_addition_present");
        }
        if stats.selected_unknown > 0 {
            ctx.counters.inc("probe.unknown_alternative_or_value_selected");
        }
        if (end - start) / 8 > 127 {
            ctx.counters.inc("probe.message_longer_than_127_octets");
        }
        let rendered_low = if ctx.recording() { low_tree.render() } else { String::new() };
        let rendered_high = if ctx.recording() { high_tree.render() } else { String::new() };
        ctx.log.ev("S", "send", crate::choices::mix(high_tree.hash() ^ low_tree.hash(), (end - start) as u64), || {
            format!("V{lo} view {rendered_low} | V{hi} view {rendered_high} | bits {start}..{end}")
        });
        sent.push(Sent { low, high, high_absent, unknown_selected: stats.selected_unknown > 0, start, end });
    }
    // sentinel behind the messages
    let sentinel = sentinel_val();
    let s_ops = &z.types[c.sentinel];
    let s_start = writer.bit_len();
    if !matches!(guard(|| (s_ops.uper_write)(&sentinel, &mut writer)), Ok(Ok(()))) {
        return Some(Violation { signature: "HARNESS/sentinel".into(), detail: String::new() });
    }
    let total = writer.bit_len();

    // receiver at the other version
    let bytes = writer.byte_content().to_vec();
    let mut reader = UperReader::from((&bytes[..], total));
    let r_ops = if new_to_old { t_lo } else { t_hi };
    let dir = if new_to_old { "new->old" } else { "old->new" };
    let kind = role_name.split('.').next().unwrap_or("?");
    for (i, s) in sent.iter().enumerate() {
        let expect = if new_to_old { &s.low } else { &s.high_absent };
        let r = guard(|| (r_ops.uper_read)(&mut reader));
        match r {
            Err(pi) => {
                return Some(Violation {
                    signature: format!("C05/receiver-panic/{dir}/{kind}/{}", pi.sig()),
                    detail: format!("message {i}: receiver V{} panicked: {} ({})", if new_to_old { lo } else { hi }, pi.message, pi.location),
                })
            }
            Ok(Err(e)) => {
                if new_to_old && s.unknown_selected {
                    // an unknown CHOICE alternative / ENUMERATED value may be reported as an error;
                    // nothing is asserted about the stream after it
                    ctx.counters.inc("c05.unknown_selection_reported_as_err");
                    ctx.log.ev("R", "recv-err-accepted", i as u64, || format!("msg{i} -> Err({}) accepted", kind_name(e.kind())));
                    ctx.nontrivial = true;
                    return None;
                }
                return Some(Violation {
                    signature: format!("C05/decode-err/{dir}/{kind}/{}", kind_name(e.kind())),
                    detail: format!("message {i} of chain {role_name} sent by V{} and read by V{} failed: {}; sender value {}", if new_to_old { hi } else { lo }, if new_to_old { lo } else { hi }, kind_full(e.kind()), (if new_to_old { (t_hi.tree)(&s.high) } else { (t_lo.tree)(&s.low) }).render()),
                });
            }
            Ok(Ok(v)) => {
                if new_to_old && s.unknown_selected {
                    return Some(Violation {
                        signature: format!("C05/unknown-selection-decoded-as-value/{kind}"),
                        detail: format!("message {i}: the sender (V{hi}) selected an alternative/value V{lo} does not know, but V{lo} decoded Ok({}) -- never a wrong value", (r_ops.tree)(&v).render()),
                    });
                }
                if !(r_ops.eq)(&v, expect) {
                    return Some(Violation {
                        signature: format!("C05/wrong-root-content/{dir}/{kind}"),
                        detail: format!("message {i} of chain {role_name}: sender V{} value {}, receiver V{} decoded {} but expected {}", if new_to_old { hi } else { lo }, (if new_to_old { (t_hi.tree)(&s.high) } else { (t_lo.tree)(&s.low) }).render(), if new_to_old { lo } else { hi }, (r_ops.tree)(&v).render(), (r_ops.tree)(expect).render()),
                    });
                }
                let remaining = guard(|| reader.bits_remaining()).unwrap_or(usize::MAX);
                if remaining != total - s.end {
                    return Some(Violation {
                        signature: format!("C05/stream-misaligned/{dir}/{kind}"),
                        detail: format!("message {i} of chain {role_name} occupies bits {}..{} of {total}; after decoding it under the other version {} bits remain (expected {})", s.start, s.end, remaining, total - s.end),
                    });
                }
                ctx.counters.inc("c05.messages_decoded_under_other_version");
                ctx.nontrivial = true;
                ctx.log.ev("R", "recv-ok", (s.end as u64) << 4 | i as u64, || format!("msg{i} -> Ok, pos={}", s.end));
            }
        }
    }
    // the sentinel behind the messages
    match guard(|| (s_ops.uper_read)(&mut reader)) {
        Ok(Ok(v)) if (s_ops.eq)(&v, &sentinel) => {
            let remaining = guard(|| reader.bits_remaining()).unwrap_or(usize::MAX);
            if remaining != 0 {
                return Some(Violation { signature: format!("C05/stream-misaligned/{dir}/{kind}/after-sentinel"), detail: format!("{remaining} bits remain after the sentinel") });
            }
            ctx.counters.inc("c05.sentinel_ok");
            ctx.log.ev("R", "sentinel-ok", s_start as u64, String::new);
        }
        other => {
            return Some(Violation {
                signature: format!("C05/sentinel-corrupted/{dir}/{kind}"),
                detail: format!("the sentinel behind {} messages of chain {role_name} (V{lo}/V{hi}, {dir}) decoded as {:?}", sent.len(), other.map(|r| r.map(|v| (s_ops.tree)(&v).render()).map_err(|e| kind_full(e.kind()))).map_err(|p| p.sig())),
            });
        }
    }
    None
}

/// true if any SEQUENCE/SET node of the tree has a present extension addition
pub fn additions_present(t: &crate::tree::Tree) -> bool {
    let mut found = false;
    t.walk(&mut |n| {
        if let crate::tree::Tree::Seq { ext_after: Some(e), fields, .. } = n {
            for f in fields.iter().skip(*e as usize + 1) {
                match f {
                    crate::tree::Tree::Opt(Some(_)) | crate::tree::Tree::Def { is_default: false, .. } => found = true,
                    _ => {}
                }
            }
        }
    });
    found
}
