//! Engine core shared by all layers: run context, event log, counters, violations.

use crate::choices::Choices;
use crate::tree::Fnv;
use std::collections::BTreeMap;

#[derive(Clone, Copy, Debug, PartialEq, Eq)]
pub enum Tier {
    Quick,
    Thorough,
}

impl Tier {
    pub fn name(self) -> &'static str {
        match self {
            Tier::Quick => "quick",
            Tier::Thorough => "thorough",
        }
    }
    pub fn parse(s: &str) -> Option<Tier> {
        match s {
            "quick" => Some(Tier::Quick),
            "thorough" => Some(Tier::Thorough),
            _ => None,
        }
    }
}

#[derive(Debug, Clone, PartialEq)]
pub struct Violation {
    /// what the violation *is*: property / oracle id / call site or history class
    pub signature: String,
    pub detail: String,
}

#[derive(Default, Clone, Debug)]
pub struct Counters(pub BTreeMap<String, u64>);

impl Counters {
    #[inline]
    pub fn inc(&mut self, k: &str) {
        self.add(k, 1);
    }
    pub fn add(&mut self, k: &str, n: u64) {
        if let Some(v) = self.0.get_mut(k) {
            *v += n;
        } else {
            self.0.insert(k.to_string(), n);
        }
    }
    pub fn max(&mut self, k: &str, n: u64) {
        let e = self.0.entry(k.to_string()).or_insert(0);
        if n > *e {
            *e = n;
        }
    }
    pub fn merge(&mut self, other: &Counters) {
        for (k, v) in &other.0 {
            if k.starts_with("max.") {
                self.max(k, *v);
            } else {
                self.add(k, *v);
            }
        }
    }
    pub fn get(&self, k: &str) -> u64 {
        self.0.get(k).copied().unwrap_or(0)
    }
}

pub struct EventLog {
    pub hash: Fnv,
    pub shape: Fnv,
    pub steps: u64,
    pub lines: Option<Vec<String>>,
}

impl EventLog {
    pub fn new(record: bool) -> Self {
        EventLog { hash: Fnv::new(), shape: Fnv::new(), steps: 0, lines: if record { Some(Vec::new()) } else { None } }
    }

    /// `kind` contributes to the shape hash, `digest` (outcome) to the event hash. `text` is only
    /// evaluated when lines are recorded (replay / samples); it never draws and never reads a clock.
    #[inline]
    pub fn ev(&mut self, actor: &str, kind: &str, digest: u64, text: impl FnOnce() -> String) {
        self.hash.u64(self.steps);
        self.hash.str(actor);
        self.hash.str(kind);
        self.hash.u64(digest);
        self.shape.str(actor);
        self.shape.str(kind);
        if let Some(l) = &mut self.lines {
            if l.len() < 400 {
                l.push(format!("{} {} {} {}", self.steps, actor, kind, text()));
            }
        }
        self.steps += 1;
    }
}

pub struct RunCtx<'a> {
    pub ch: &'a mut Choices,
    pub tier: Tier,
    pub log: EventLog,
    pub counters: &'a mut Counters,
    /// "checked" or "release" (which build this binary is)
    pub profile: &'static str,
    /// whether this run counts as non-trivial by the rule of its property
    pub nontrivial: bool,
    /// human-readable scenario (only filled when recording)
    pub scenario: Vec<String>,
    /// outcome lines for build-skew comparison (C19), only when requested
    pub outcomes: Option<Vec<String>>,
    /// domain predicates of known findings that are lifted (explored again), by finding id
    pub lifted: &'a [String],
}

impl<'a> RunCtx<'a> {
    pub fn recording(&self) -> bool {
        self.log.lines.is_some()
    }
    pub fn note(&mut self, f: impl FnOnce() -> String) {
        if self.recording() && self.scenario.len() < 200 {
            let s = f();
            self.scenario.push(s);
        }
    }
    pub fn is_lifted(&self, finding: &str) -> bool {
        self.lifted.iter().any(|l| l == finding || l == "all")
    }
}

pub fn profile_name() -> &'static str {
    if cfg!(debug_assertions) {
        "checked"
    } else {
        "release"
    }
}

pub fn hex(bytes: &[u8]) -> String {
    let mut s = String::with_capacity(bytes.len() * 2);
    for (i, b) in bytes.iter().enumerate() {
        if i >= 96 {
            s.push_str(&format!("…(+{}B)", bytes.len() - i));
            break;
        }
        s.push_str(&format!("{:02x}", b));
    }
    s
}
