//! Allocator seam (DESIGN 2.5): the harness binary owns `#[global_allocator]`. It accounts every
//! allocation and refuses absurd ones so that a hostile length cannot take the sandbox down.
//! Worker processes are single threaded, so plain relaxed atomics are exact.

use std::alloc::{GlobalAlloc, Layout, System};
use std::sync::atomic::{AtomicU64, AtomicUsize, Ordering::Relaxed};

pub struct Counting;

static LIVE: AtomicUsize = AtomicUsize::new(0);
static PEAK: AtomicUsize = AtomicUsize::new(0);
static LARGEST: AtomicUsize = AtomicUsize::new(0);
static REQUESTED: AtomicUsize = AtomicUsize::new(0);
pub static CURRENT_RUN: AtomicU64 = AtomicU64::new(u64::MAX);

pub const REFUSE_SINGLE: usize = 1 << 30; // 1 GiB
pub const REFUSE_LIVE: usize = 2 << 30; // 2 GiB

extern "C" {
    fn write(fd: i32, buf: *const u8, count: usize) -> isize;
}

fn raw_stderr(msg: &[u8]) {
    unsafe {
        let _ = write(2, msg.as_ptr(), msg.len());
    }
}

fn fmt_u64(mut v: u64, buf: &mut [u8; 20]) -> &[u8] {
    let mut i = buf.len();
    if v == 0 {
        i -= 1;
        buf[i] = b'0';
    }
    while v > 0 {
        i -= 1;
        buf[i] = b'0' + (v % 10) as u8;
        v /= 10;
    }
    &buf[i..]
}

#[cold]
fn refuse(size: usize) {
    let mut b1 = [0u8; 20];
    let mut b2 = [0u8; 20];
    raw_stderr(b"ALLOCFAIL run=");
    raw_stderr(fmt_u64(CURRENT_RUN.load(Relaxed), &mut b1));
    raw_stderr(b" size=");
    raw_stderr(fmt_u64(size as u64, &mut b2));
    raw_stderr(b"\n");
}

unsafe impl GlobalAlloc for Counting {
    unsafe fn alloc(&self, l: Layout) -> *mut u8 {
        let size = l.size();
        if size > REFUSE_SINGLE || LIVE.load(Relaxed) + size > REFUSE_LIVE {
            refuse(size);
            return std::ptr::null_mut();
        }
        let p = System.alloc(l);
        if !p.is_null() {
            note_alloc(size);
        }
        p
    }
    unsafe fn alloc_zeroed(&self, l: Layout) -> *mut u8 {
        let size = l.size();
        if size > REFUSE_SINGLE || LIVE.load(Relaxed) + size > REFUSE_LIVE {
            refuse(size);
            return std::ptr::null_mut();
        }
        let p = System.alloc_zeroed(l);
        if !p.is_null() {
            note_alloc(size);
        }
        p
    }
    unsafe fn dealloc(&self, p: *mut u8, l: Layout) {
        LIVE.fetch_sub(l.size(), Relaxed);
        System.dealloc(p, l)
    }
    unsafe fn realloc(&self, p: *mut u8, l: Layout, new_size: usize) -> *mut u8 {
        if new_size > REFUSE_SINGLE || (new_size > l.size() && LIVE.load(Relaxed) + (new_size - l.size()) > REFUSE_LIVE) {
            refuse(new_size);
            return std::ptr::null_mut();
        }
        let q = System.realloc(p, l, new_size);
        if !q.is_null() {
            LIVE.fetch_sub(l.size(), Relaxed);
            note_alloc(new_size);
        }
        q
    }
}

#[inline]
fn note_alloc(size: usize) {
    let live = LIVE.fetch_add(size, Relaxed) + size;
    REQUESTED.fetch_add(size, Relaxed);
    if live > PEAK.load(Relaxed) {
        PEAK.store(live, Relaxed);
    }
    if size > LARGEST.load(Relaxed) {
        LARGEST.store(size, Relaxed);
    }
}

#[derive(Debug, Clone, Copy, Default)]
pub struct Mark {
    live: usize,
}

#[derive(Debug, Clone, Copy, Default)]
pub struct Usage {
    /// largest single request since the mark
    pub largest: usize,
    /// peak live bytes above the level at the mark
    pub peak_above_mark: usize,
    pub requested: usize,
}

pub fn mark() -> Mark {
    let live = LIVE.load(Relaxed);
    PEAK.store(live, Relaxed);
    LARGEST.store(0, Relaxed);
    REQUESTED.store(0, Relaxed);
    Mark { live }
}

pub fn usage(m: Mark) -> Usage {
    Usage {
        largest: LARGEST.load(Relaxed),
        peak_above_mark: PEAK.load(Relaxed).saturating_sub(m.live),
        requested: REQUESTED.load(Relaxed),
    }
}
