//! Minimal JSON value, writer and parser (no dependencies).

use std::collections::BTreeMap;
use std::fmt::Write as _;

#[derive(Debug, Clone, PartialEq)]
pub enum J {
    Null,
    Bool(bool),
    Num(f64),
    /// integers are kept exact
    Int(i128),
    Str(String),
    Arr(Vec<J>),
    Obj(BTreeMap<String, J>),
}

impl J {
    pub fn obj() -> J {
        J::Obj(BTreeMap::new())
    }
    pub fn set(&mut self, k: &str, v: J) -> &mut Self {
        if let J::Obj(m) = self {
            m.insert(k.to_string(), v);
        }
        self
    }
    pub fn with(mut self, k: &str, v: J) -> Self {
        self.set(k, v);
        self
    }
    pub fn get(&self, k: &str) -> Option<&J> {
        match self {
            J::Obj(m) => m.get(k),
            _ => None,
        }
    }
    pub fn as_str(&self) -> Option<&str> {
        match self {
            J::Str(s) => Some(s),
            _ => None,
        }
    }
    pub fn as_u64(&self) -> Option<u64> {
        match self {
            J::Int(i) if *i >= 0 => Some(*i as u64),
            J::Num(f) if *f >= 0.0 => Some(*f as u64),
            _ => None,
        }
    }
    pub fn as_arr(&self) -> Option<&[J]> {
        match self {
            J::Arr(a) => Some(a),
            _ => None,
        }
    }
    pub fn str(s: impl Into<String>) -> J {
        J::Str(s.into())
    }
    pub fn int(i: impl Into<i128>) -> J {
        J::Int(i.into())
    }
    pub fn u(i: u64) -> J {
        J::Int(i as i128)
    }
    pub fn arr<I: IntoIterator<Item = J>>(i: I) -> J {
        J::Arr(i.into_iter().collect())
    }

    pub fn to_string(&self) -> String {
        let mut s = String::new();
        self.write(&mut s, 0, false);
        s
    }

    pub fn to_pretty(&self) -> String {
        let mut s = String::new();
        self.write(&mut s, 0, true);
        s.push('\n');
        s
    }

    fn write(&self, s: &mut String, ind: usize, pretty: bool) {
        match self {
            J::Null => s.push_str("null"),
            J::Bool(b) => {
                let _ = write!(s, "{}", b);
            }
            J::Num(f) => {
                if f.is_finite() {
                    let _ = write!(s, "{}", f);
                } else {
                    s.push_str("null");
                }
            }
            J::Int(i) => {
                let _ = write!(s, "{}", i);
            }
            J::Str(v) => write_str(s, v),
            J::Arr(a) => {
                let flat = !pretty || a.iter().all(|x| matches!(x, J::Int(_) | J::Num(_) | J::Bool(_) | J::Null));
                s.push('[');
                for (i, v) in a.iter().enumerate() {
                    if i > 0 {
                        s.push(',');
                        if flat && pretty {
                            s.push(' ');
                        }
                    }
                    if !flat {
                        s.push('\n');
                        s.push_str(&" ".repeat(ind + 1));
                    }
                    v.write(s, ind + 1, pretty);
                }
                if !flat && !a.is_empty() {
                    s.push('\n');
                    s.push_str(&" ".repeat(ind));
                }
                s.push(']');
            }
            J::Obj(m) => {
                s.push('{');
                for (i, (k, v)) in m.iter().enumerate() {
                    if i > 0 {
                        s.push(',');
                    }
                    if pretty {
                        s.push('\n');
                        s.push_str(&" ".repeat(ind + 1));
                    }
                    write_str(s, k);
                    s.push(':');
                    if pretty {
                        s.push(' ');
                    }
                    v.write(s, ind + 1, pretty);
                }
                if pretty && !m.is_empty() {
                    s.push('\n');
                    s.push_str(&" ".repeat(ind));
                }
                s.push('}');
            }
        }
    }

    pub fn parse(text: &str) -> Result<J, String> {
        let mut p = P { b: text.as_bytes(), i: 0 };
        let v = p.value()?;
        p.ws();
        if p.i != p.b.len() {
            return Err(format!("trailing data at {}", p.i));
        }
        Ok(v)
    }
}

fn write_str(s: &mut String, v: &str) {
    s.push('"');
    for c in v.chars() {
        match c {
            '"' => s.push_str("\\\""),
            '\\' => s.push_str("\\\\"),
            '\n' => s.push_str("\\n"),
            '\r' => s.push_str("\\r"),
            '\t' => s.push_str("\\t"),
            c if (c as u32) < 0x20 || c == '\u{7f}' => {
                let _ = write!(s, "\\u{:04x}", c as u32);
            }
            c => s.push(c),
        }
    }
    s.push('"');
}

struct P<'a> {
    b: &'a [u8],
    i: usize,
}

impl<'a> P<'a> {
    fn ws(&mut self) {
        while self.i < self.b.len() && (self.b[self.i] as char).is_ascii_whitespace() {
            self.i += 1;
        }
    }
    fn value(&mut self) -> Result<J, String> {
        self.ws();
        if self.i >= self.b.len() {
            return Err("eof".into());
        }
        match self.b[self.i] {
            b'{' => {
                self.i += 1;
                let mut m = BTreeMap::new();
                loop {
                    self.ws();
                    if self.peek() == Some(b'}') {
                        self.i += 1;
                        break;
                    }
                    let k = match self.value()? {
                        J::Str(s) => s,
                        _ => return Err("key".into()),
                    };
                    self.ws();
                    if self.peek() != Some(b':') {
                        return Err(format!("expected : at {}", self.i));
                    }
                    self.i += 1;
                    let v = self.value()?;
                    m.insert(k, v);
                    self.ws();
                    match self.peek() {
                        Some(b',') => self.i += 1,
                        Some(b'}') => {
                            self.i += 1;
                            break;
                        }
                        _ => return Err(format!("expected , or }} at {}", self.i)),
                    }
                }
                Ok(J::Obj(m))
            }
            b'[' => {
                self.i += 1;
                let mut a = Vec::new();
                loop {
                    self.ws();
                    if self.peek() == Some(b']') {
                        self.i += 1;
                        break;
                    }
                    a.push(self.value()?);
                    self.ws();
                    match self.peek() {
                        Some(b',') => self.i += 1,
                        Some(b']') => {
                            self.i += 1;
                            break;
                        }
                        _ => return Err(format!("expected , or ] at {}", self.i)),
                    }
                }
                Ok(J::Arr(a))
            }
            b'"' => {
                self.i += 1;
                let mut s = String::new();
                loop {
                    if self.i >= self.b.len() {
                        return Err("eof in string".into());
                    }
                    let c = self.b[self.i];
                    self.i += 1;
                    match c {
                        b'"' => break,
                        b'\\' => {
                            let e = self.b.get(self.i).copied().ok_or("eof")?;
                            self.i += 1;
                            match e {
                                b'n' => s.push('\n'),
                                b'r' => s.push('\r'),
                                b't' => s.push('\t'),
                                b'b' => s.push('\u{8}'),
                                b'f' => s.push('\u{c}'),
                                b'u' => {
                                    let h = std::str::from_utf8(&self.b[self.i..self.i + 4]).map_err(|e| e.to_string())?;
                                    let cp = u32::from_str_radix(h, 16).map_err(|e| e.to_string())?;
                                    self.i += 4;
                                    s.push(char::from_u32(cp).unwrap_or('\u{fffd}'));
                                }
                                other => s.push(other as char),
                            }
                        }
                        _ => {
                            // copy raw utf-8 bytes
                            let start = self.i - 1;
                            let mut end = self.i;
                            while end < self.b.len() && self.b[end] != b'"' && self.b[end] != b'\\' {
                                end += 1;
                            }
                            s.push_str(std::str::from_utf8(&self.b[start..end]).map_err(|e| e.to_string())?);
                            self.i = end;
                        }
                    }
                }
                Ok(J::Str(s))
            }
            b't' if self.b[self.i..].starts_with(b"true") => {
                self.i += 4;
                Ok(J::Bool(true))
            }
            b'f' if self.b[self.i..].starts_with(b"false") => {
                self.i += 5;
                Ok(J::Bool(false))
            }
            b'n' if self.b[self.i..].starts_with(b"null") => {
                self.i += 4;
                Ok(J::Null)
            }
            _ => {
                let start = self.i;
                while self.i < self.b.len() && matches!(self.b[self.i], b'-' | b'+' | b'.' | b'e' | b'E' | b'0'..=b'9') {
                    self.i += 1;
                }
                let t = std::str::from_utf8(&self.b[start..self.i]).unwrap();
                if let Ok(i) = t.parse::<i128>() {
                    Ok(J::Int(i))
                } else {
                    t.parse::<f64>().map(J::Num).map_err(|e| format!("number {t:?}: {e}"))
                }
            }
        }
    }
    fn peek(&self) -> Option<u8> {
        self.b.get(self.i).copied()
    }
}
