//! C01: UPER round trip incl. back-to-back messages (DESIGN 5.C01). Faults OFF.

use crate::choices::Lane;
use crate::engine::*;
use crate::guard::guard;
use crate::wire::*;
use crate::zoo::*;
use asn1rs::prelude::*;

struct Consumer {
    next_msg: usize,
    offset: usize,
}

struct Pair {
    prod: Producer,
    delivery: Option<Delivery>,
    cons: Consumer,
    streams_closed: u32,
}

const MAX_MSGS: usize = 12;

pub fn run(ctx: &mut RunCtx<'_>) -> Option<Violation> {
    let types = eligible_types_c01();
    let lifted: Vec<String> = ctx.lifted.to_vec();
    let is_lifted = move |f: &str| lifted.iter().any(|l| l == f || l == "all");

    let (npairs, steps, cfg) = {
        let mut l0 = Lane::new(ctx.ch, 0);
        let npairs = 1 + l0.draw(3) as usize;
        let max_steps = if ctx.tier == Tier::Quick { 24 } else { 64 };
        let steps = 3 + l0.draw(max_steps);
        let cfg = draw_gen_cfg(&mut l0, &is_lifted, false);
        (npairs, steps, cfg)
    };
    ctx.note(|| format!("pairs={npairs} steps={steps} gen={cfg:?}"));
    ctx.counters.inc(&format!("swarm.size_class.{}", cfg.size_class));
    ctx.counters.inc(if cfg.valid { "swarm.valid_mode" } else { "swarm.unrestricted_mode" });

    let mut pairs: Vec<Pair> = (0..npairs)
        .map(|_| Pair { prod: Producer::new(), delivery: None, cons: Consumer { next_msg: 0, offset: 0 }, streams_closed: 0 })
        .collect();

    for _ in 0..steps {
        // enabled actions
        let mut enabled: Vec<(usize, u8)> = Vec::new();
        for (i, p) in pairs.iter().enumerate() {
            if p.prod.stream.len() < MAX_MSGS {
                enabled.push((i, 0)); // append
            }
            if !p.prod.stream.is_empty() {
                enabled.push((i, 1)); // snapshot
            }
            if let Some(d) = &p.delivery {
                if p.cons.next_msg < d.complete {
                    enabled.push((i, 2)); // poll
                }
            }
            if !p.prod.stream.is_empty() && p.streams_closed < 2 {
                enabled.push((i, 3)); // close stream, start a new one
            }
        }
        if enabled.is_empty() {
            break;
        }
        let (i, act) = enabled[ctx.ch.draw(0, enabled.len() as u64) as usize];
        let actor = format!("P{}", i + 1);
        match act {
            0 => {
                if let Some(v) = do_append(ctx, &mut pairs[i], i, &types, cfg, &is_lifted, &actor) {
                    return Some(v);
                }
            }
            1 => do_snapshot(ctx, &mut pairs[i], i, &actor),
            2 => {
                let max = 1 + ctx.ch.draw(0, 3) as usize;
                if let Some(v) = do_poll(ctx, &mut pairs[i], max, false, &actor) {
                    return Some(v);
                }
            }
            _ => {
                if let Some(v) = close_stream(ctx, &mut pairs[i], i, &actor) {
                    return Some(v);
                }
            }
        }
    }
    // drain: every appended message is decoded at least once, every stream ends with remaining == 0
    for i in 0..pairs.len() {
        let actor = format!("P{}", i + 1);
        if let Some(v) = close_stream(ctx, &mut pairs[i], i, &actor) {
            return Some(v);
        }
    }
    None
}

fn do_append(
    ctx: &mut RunCtx<'_>,
    pair: &mut Pair,
    i: usize,
    types: &[usize],
    cfg: crate::gen::GenCfg,
    is_lifted: &dyn Fn(&str) -> bool,
    actor: &str,
) -> Option<Violation> {
    let lane = i + 1;
    let z = zoo();
    // draw type and value; re-draw while inside the domain of a known finding
    let mut tries = 0;
    let (ty, val, tree, class) = loop {
        let ty = types[ctx.ch.draw(lane, types.len() as u64) as usize];
        let ops = &z.types[ty];
        let (val, stats) = (ops.gen)(Lane::new(ctx.ch, lane), cfg);
        let tree = (ops.tree)(&val);
        let class = classify(&tree);
        ctx.counters.add("gen.nodes", stats.nodes);
        ctx.counters.add("gen.out_of_constraint_values", stats.out_of_constraint);
        ctx.counters.add("gen.illegal_chars", stats.illegal_char);
        if let Some(f) = in_known_broken_domain(&class, is_lifted) {
            ctx.counters.inc(&format!("known.{f}.redirected_draws"));
            tries += 1;
            if tries < 4 {
                continue;
            }
            // give up on big values for this append: take a small one
            let small = crate::gen::GenCfg { size_class: 0, ..cfg };
            let (val, _) = (ops.gen)(Lane::new(ctx.ch, lane), small);
            let tree = (ops.tree)(&val);
            let class = classify(&tree);
            if in_known_broken_domain(&class, is_lifted).is_some() {
                continue;
            }
            break (ty, val, tree, class);
        }
        if maybe_in_d7_domain(&class, is_lifted) {
            // measure exactly on a scratch writer
            let mut w = UperWriter::default();
            let big = match guard(|| (ops.uper_write)(&val, &mut w)) {
                Ok(Ok(())) => w.bit_len() >= 16384 * 8,
                _ => false,
            };
            if big {
                ctx.counters.inc("known.D7.redirected_draws");
                tries += 1;
                if tries < 8 {
                    continue;
                }
            }
        }
        break (ty, val, tree, class);
    };
    let ops = &z.types[ty];
    let tree_hash = tree.hash();
    // D-oracle 4 (sampled): position independence
    let check_pos_indep = ctx.ch.draw(lane, 8) == 7;
    let fresh = if check_pos_indep {
        let mut w = UperWriter::default();
        match guard(|| (ops.uper_write)(&val, &mut w)) {
            Ok(Ok(())) => Some((w.byte_content().to_vec(), w.bit_len())),
            _ => None,
        }
    } else {
        None
    };
    let rendered = if ctx.recording() { tree.render() } else { String::new() };
    match append(ctx, &mut pair.prod, ty, val, tree) {
        AppendOutcome::Ok => {
            let m = pair.prod.stream.last().unwrap();
            let (s, e) = (m.start, m.end);
            ctx.counters.inc("c01.append_ok");
            ctx.counters.inc(&format!("c01.class.{}", class.label()));
            if class.big_fragmented {
                ctx.counters.inc("probe.fragmented_length_seen");
            }
            if let Some((fb, fl)) = fresh {
                if fl != e - s || !bits_equal(&fb, 0, &pair.prod.good, s, fl) {
                    ctx.counters.inc("diag.C01.position_dependent_encoding");
                }
            }
            ctx.log.ev(actor, "append", mix2(tree_hash, (e - s) as u64), || {
                format!("{} {} bits {}..{}", ops.name, rendered, s, e)
            });
            None
        }
        AppendOutcome::EncodeErr(kind) => {
            ctx.counters.inc("c01.append_encode_err");
            ctx.counters.inc(&format!("c01.encode_err.{kind}"));
            ctx.log.ev(actor, "append-err", tree_hash, || format!("{} {} -> Err({kind})", ops.name, rendered));
            // the writer may hold partial bits: retire it (the property is silent about it)
            retire_writer(ctx, pair, i, actor)
        }
        AppendOutcome::EncodePanic(sig) => {
            ctx.counters.inc("diag.C01.encode_panicked");
            ctx.counters.inc(&format!("diag.C01.encode_panic@{sig}"));
            ctx.log.ev(actor, "append-panic", tree_hash, || format!("{} {} -> panic {sig}", ops.name, rendered));
            retire_writer(ctx, pair, i, actor)
        }
    }
}

fn mix2(a: u64, b: u64) -> u64 {
    crate::choices::mix(a, b)
}

pub fn bits_equal(a: &[u8], a_off: usize, b: &[u8], b_off: usize, n: usize) -> bool {
    let bit = |v: &[u8], i: usize| -> Option<bool> { v.get(i / 8).map(|x| x & (0x80 >> (i % 8)) != 0) };
    for k in 0..n {
        if bit(a, a_off + k) != bit(b, b_off + k) || bit(a, a_off + k).is_none() {
            return false;
        }
    }
    true
}

/// after a failed append: everything successfully appended is delivered from the last good copy
/// and checked, then a fresh writer starts a new stream
fn retire_writer(ctx: &mut RunCtx<'_>, pair: &mut Pair, i: usize, actor: &str) -> Option<Violation> {
    let r = finish_stream(ctx, pair, i, actor);
    reset_pair(pair);
    r
}

fn reset_pair(pair: &mut Pair) {
    pair.prod = Producer::new();
    pair.delivery = None;
    pair.cons = Consumer { next_msg: 0, offset: 0 };
}

fn close_stream(ctx: &mut RunCtx<'_>, pair: &mut Pair, i: usize, actor: &str) -> Option<Violation> {
    let r = finish_stream(ctx, pair, i, actor);
    pair.streams_closed += 1;
    reset_pair(pair);
    r
}

fn finish_stream(ctx: &mut RunCtx<'_>, pair: &mut Pair, i: usize, actor: &str) -> Option<Violation> {
    if pair.prod.stream.is_empty() {
        return None;
    }
    do_snapshot(ctx, pair, i, actor);
    // mode: continue from the saved offset, or one reader over the whole stream from the start
    let whole = ctx.ch.draw(0, 2) == 1;
    if whole {
        pair.cons = Consumer { next_msg: 0, offset: 0 };
    }
    do_poll(ctx, pair, usize::MAX, true, actor)
}

fn do_snapshot(ctx: &mut RunCtx<'_>, pair: &mut Pair, i: usize, actor: &str) {
    let lane = i + 1;
    let repr = ctx.ch.draw(lane, 4);
    let bytes = represent(&pair.prod.good, pair.prod.good_bits, repr, &mut Lane::new(ctx.ch, lane));
    ctx.counters.inc(&format!("fault.W-SLACK.repr{repr}"));
    let d = Delivery { bytes, bit_len: pair.prod.good_bits, complete: pair.prod.stream.len() };
    ctx.log.ev(actor, "snapshot", d.bit_len as u64, || format!("{} bits, {} msgs, repr={repr}", d.bit_len, d.complete));
    pair.delivery = Some(d);
}

/// decodes up to `max` further messages of the current delivery with ONE reader that resumes at the
/// consumer's saved bit offset; `at_end`: additionally require remaining == 0 after the last one
fn do_poll(ctx: &mut RunCtx<'_>, pair: &mut Pair, max: usize, at_end: bool, actor: &str) -> Option<Violation> {
    let z = zoo();
    let d = pair.delivery.as_ref()?;
    let mut bits = Bits::from((&d.bytes[..], d.bit_len));
    bits.set_pos(pair.cons.offset);
    let mut reader = UperReader::from(bits);
    let mut n = 0;
    while pair.cons.next_msg < d.complete && n < max {
        let m = &pair.prod.stream[pair.cons.next_msg];
        let ops = &z.types[m.ty];
        let class = classify(&m.tree);
        let r = guard(|| (ops.uper_read)(&mut reader));
        let cls = class.label();
        match r {
            Err(pi) => {
                return Some(Violation {
                    signature: format!("C01/decode-panic/{}/{}", cls, pi.sig()),
                    detail: format!("decoding message {} ({}) of a fault-free stream panicked at {}: {}; value {}", pair.cons.next_msg, ops.name, pi.location, pi.message, m.tree.render()),
                });
            }
            Ok(Err(e)) => {
                return Some(Violation {
                    signature: format!("C01/decode-err/{}/{}", cls, kind_name(e.kind())),
                    detail: format!("message {} ({}) encoded Ok ({} bits at {}) but decoding failed: {}; value {}", pair.cons.next_msg, ops.name, m.end - m.start, m.start, kind_full(e.kind()), m.tree.render()),
                });
            }
            Ok(Ok(v)) => {
                if !(ops.eq)(&v, &m.val) {
                    let got = (ops.tree)(&v);
                    return Some(Violation {
                        signature: format!("C01/roundtrip-mismatch/{}/type={}", cls, if cls == "small" { ops.name } else { "*" }),
                        detail: format!("message {} ({}): sent {} decoded {}", pair.cons.next_msg, ops.name, m.tree.render(), got.render()),
                    });
                }
                let remaining = match guard(|| reader.bits_remaining()) {
                    Ok(r) => r,
                    Err(pi) => {
                        return Some(Violation {
                            signature: format!("C01/consumed-bits/{}/remaining-panicked", cls),
                            detail: format!("bits_remaining() panicked after a successful read of {}: {}", ops.name, pi.message),
                        })
                    }
                };
                let expect = d.bit_len - m.end;
                if remaining != expect {
                    return Some(Violation {
                        signature: format!("C01/consumed-bits/{}/type={}", cls, if cls == "small" { ops.name } else { "*" }),
                        detail: format!("message {} ({}) occupies bits {}..{} of {} but the reader has {} bits remaining (expected {}); value {}", pair.cons.next_msg, ops.name, m.start, m.end, d.bit_len, remaining, expect, m.tree.render()),
                    });
                }
                ctx.counters.inc("c01.decoded_ok");
                ctx.nontrivial = true;
                let idx = pair.cons.next_msg;
                ctx.log.ev(actor, "poll-ok", mix2(m.tree.hash(), m.end as u64), || format!("msg{} {} -> Ok pos={}", idx, ops.name, m.end));
                pair.cons.offset = m.end;
                pair.cons.next_msg += 1;
                n += 1;
            }
        }
    }
    if at_end && pair.cons.next_msg == pair.prod.stream.len() {
        let remaining = guard(|| reader.bits_remaining()).unwrap_or(usize::MAX);
        if remaining != 0 {
            return Some(Violation {
                signature: "C01/remaining-at-end".into(),
                detail: format!("after the last message of a closed stream {} bits remain", remaining),
            });
        }
        ctx.counters.inc("c01.streams_checked_to_end");
        if pair.prod.stream.len() >= 2 {
            ctx.counters.inc("probe.back_to_back_stream>=2");
        }
    }
    None
}
