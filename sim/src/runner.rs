//! run_once / worker loop / replay / tape minimisation.

use crate::alloc::CURRENT_RUN;
use crate::choices::Choices;
use crate::engine::*;
use crate::guard::guard;
use crate::json::J;
use std::collections::{BTreeMap, HashSet};
use std::sync::atomic::{AtomicU64, Ordering::Relaxed};

pub struct RunOutput {
    pub violation: Option<Violation>,
    pub event_hash: u64,
    pub shape_hash: u64,
    pub steps: u64,
    pub draws: u64,
    pub nontrivial: bool,
    pub lines: Vec<String>,
    pub scenario: Vec<String>,
    pub outcomes: Vec<String>,
    pub lanes: Vec<Vec<u64>>,
}

pub fn dispatch(prop: &str, ctx: &mut RunCtx<'_>) -> Option<Violation> {
    match prop {
        "C01" => crate::c01::run(ctx),
        "C04" => crate::c04::run(ctx),
        "C05" => crate::c05::run(ctx),
        "C11" => crate::c11::run(ctx),
        "C12" => crate::c12::run(ctx),
        "C14" => crate::frontend::run_c14(ctx),
        "C17" => crate::c17::run(ctx),
        "C20" => crate::c20::run(ctx),
        "C19" => crate::c04::run_uper(ctx, true),
        other => Some(Violation { signature: format!("HARNESS/unknown-property/{other}"), detail: String::new() }),
    }
}

pub struct RunOpts<'a> {
    pub prop: &'a str,
    pub tier: Tier,
    pub record: bool,
    pub outcomes: bool,
    pub lifted: &'a [String],
}

pub fn run_once(o: &RunOpts<'_>, ch: &mut Choices, counters: &mut Counters) -> RunOutput {
    let mut ctx = RunCtx {
        ch,
        tier: o.tier,
        log: EventLog::new(o.record),
        counters,
        profile: profile_name(),
        nontrivial: false,
        scenario: Vec::new(),
        outcomes: if o.outcomes { Some(Vec::new()) } else { None },
        lifted: o.lifted,
    };
    let r = guard(|| dispatch(o.prop, &mut ctx));
    let violation = match r {
        Ok(v) => v,
        Err(pi) => Some(Violation {
            // a panic that escaped every inner guard is a defect of the harness, not of asn1rs
            signature: format!("HARNESS/panic/{}", pi.sig()),
            detail: format!("{}: {}", pi.location, pi.message),
        }),
    };
    let lanes = ctx.ch.consumed();
    RunOutput {
        violation,
        event_hash: ctx.log.hash.0,
        shape_hash: ctx.log.shape.0,
        steps: ctx.log.steps,
        draws: ctx.ch.draws,
        nontrivial: ctx.nontrivial,
        lines: ctx.log.lines.take().unwrap_or_default(),
        scenario: std::mem::take(&mut ctx.scenario),
        outcomes: ctx.outcomes.take().unwrap_or_default(),
        lanes,
    }
}

pub static WATCH_STARTED_MS: AtomicU64 = AtomicU64::new(0);

fn now_ms() -> u64 {
    use std::time::{SystemTime, UNIX_EPOCH};
    SystemTime::now().duration_since(UNIX_EPOCH).map(|d| d.as_millis() as u64).unwrap_or(0)
}

pub fn arm_watchdog() {
    WATCH_STARTED_MS.store(now_ms(), Relaxed);
}

/// The watchdog reads a clock but never influences a run's events: it only kills a hung worker.
pub fn start_watchdog(limit_s: u64) {
    std::thread::spawn(move || loop {
        std::thread::sleep(std::time::Duration::from_millis(250));
        let started = WATCH_STARTED_MS.load(Relaxed);
        if started != 0 && now_ms().saturating_sub(started) > limit_s * 1000 {
            eprintln!("HANG run={} limit_s={}", CURRENT_RUN.load(Relaxed), limit_s);
            std::process::exit(3);
        }
    });
}

pub struct WorkerArgs {
    pub prop: String,
    pub tier: Tier,
    pub seed: u64,
    pub from: u64,
    pub to: u64,
    pub lifted: Vec<String>,
    pub hash_out: Option<String>,
    pub outcomes_out: Option<String>,
    pub samples: usize,
    pub watchdog_s: u64,
    /// only hashes with h % hash_sample == 0 are reported (1 = all)
    pub hash_sample: u64,
}

pub fn worker(a: &WorkerArgs) -> J {
    start_watchdog(a.watchdog_s);
    let mut counters = Counters::default();
    let mut violations: Vec<J> = Vec::new();
    let mut seen_sigs: HashSet<String> = HashSet::new();
    let mut distinct: HashSet<u64> = HashSet::new();
    let mut shapes: HashSet<u64> = HashSet::new();
    let mut chunk_hash = crate::tree::Fnv::new();
    let mut nontrivial = 0u64;
    let mut steps = 0u64;
    let mut draws = 0u64;
    let mut samples: Vec<J> = Vec::new();
    let mut outcomes_file = a.outcomes_out.as_ref().map(|p| std::io::BufWriter::new(std::fs::File::create(p).expect("outcomes file")));
    let opts = RunOpts { prop: &a.prop, tier: a.tier, record: false, outcomes: a.outcomes_out.is_some(), lifted: &a.lifted };
    for run in a.from..a.to {
        CURRENT_RUN.store(run, Relaxed);
        WATCH_STARTED_MS.store(now_ms(), Relaxed);
        let mut ch = Choices::from_seed(a.seed, &a.prop, run);
        let want_sample = samples.len() < a.samples && (run - a.from) % 7 == 3;
        let out = if want_sample {
            let o = RunOpts { record: true, ..RunOpts { prop: &a.prop, tier: a.tier, record: true, outcomes: a.outcomes_out.is_some(), lifted: &a.lifted } };
            run_once(&o, &mut ch, &mut counters)
        } else {
            run_once(&opts, &mut ch, &mut counters)
        };
        WATCH_STARTED_MS.store(0, Relaxed);
        chunk_hash.u64(out.event_hash);
        steps += out.steps;
        draws += out.draws;
        if out.shape_hash % a.hash_sample == 0 {
            shapes.insert(out.shape_hash);
        }
        if out.nontrivial {
            nontrivial += 1;
            if out.event_hash % a.hash_sample == 0 {
                distinct.insert(out.event_hash);
            }
        }
        if want_sample && out.violation.is_none() {
            samples.push(
                J::obj()
                    .with("run", J::u(run))
                    .with("scenario", J::arr(out.scenario.iter().map(|s| J::str(s.clone()))))
                    .with("events", J::arr(out.lines.iter().take(40).map(|s| J::str(s.clone())))),
            );
        }
        if let Some(f) = &mut outcomes_file {
            use std::io::Write;
            for l in &out.outcomes {
                let _ = writeln!(f, "{run} {l}");
            }
        }
        if let Some(v) = out.violation {
            counters.inc(&format!("violation.{}", v.signature));
            if seen_sigs.insert(v.signature.clone()) && violations.len() < 40 {
                violations.push(
                    J::obj()
                        .with("run", J::u(run))
                        .with("signature", J::str(v.signature))
                        .with("detail", J::str(v.detail))
                        .with("lanes", lanes_json(&out.lanes)),
                );
            }
        }
    }
    CURRENT_RUN.store(u64::MAX, Relaxed);
    if let Some(p) = &a.hash_out {
        let mut bytes = Vec::with_capacity((distinct.len() + shapes.len() + 2) * 8);
        bytes.extend_from_slice(&(distinct.len() as u64).to_le_bytes());
        let mut d: Vec<u64> = distinct.iter().copied().collect();
        d.sort_unstable();
        for h in d {
            bytes.extend_from_slice(&h.to_le_bytes());
        }
        let mut s: Vec<u64> = shapes.iter().copied().collect();
        s.sort_unstable();
        for h in s {
            bytes.extend_from_slice(&h.to_le_bytes());
        }
        std::fs::write(p, bytes).expect("hash-out");
    }
    J::obj()
        .with("from", J::u(a.from))
        .with("to", J::u(a.to))
        .with("runs", J::u(a.to - a.from))
        .with("steps", J::u(steps))
        .with("draws", J::u(draws))
        .with("nontrivial", J::u(nontrivial))
        .with("distinct_nontrivial_local", J::u(distinct.len() as u64))
        .with("chunk_hash", J::str(format!("{:016x}", chunk_hash.0)))
        .with("counters", J::Obj(counters.0.iter().map(|(k, v)| (k.clone(), J::u(*v))).collect::<BTreeMap<_, _>>()))
        .with("violations", J::Arr(violations))
        .with("samples", J::Arr(samples))
}

pub fn lanes_json(lanes: &[Vec<u64>]) -> J {
    let mut last = 0;
    for (i, l) in lanes.iter().enumerate() {
        if !l.is_empty() {
            last = i + 1;
        }
    }
    J::arr(lanes[..last].iter().map(|l| J::arr(l.iter().map(|v| J::u(*v)))))
}

pub fn lanes_from_json(j: &J) -> Vec<Vec<u64>> {
    j.as_arr()
        .map(|a| a.iter().map(|l| l.as_arr().map(|v| v.iter().filter_map(|x| x.as_u64()).collect()).unwrap_or_default()).collect())
        .unwrap_or_default()
}

/// replays a tape; returns the output with lines recorded
pub fn replay_tape(prop: &str, tier: Tier, lanes: Vec<Vec<u64>>, lifted: &[String]) -> RunOutput {
    let mut ch = Choices::from_tape(lanes);
    let mut counters = Counters::default();
    let o = RunOpts { prop, tier, record: true, outcomes: false, lifted };
    run_once(&o, &mut ch, &mut counters)
}

fn same_class(sig: &str, target: &str) -> bool {
    sig == target
}

/// Generic tape shrinking (DESIGN 2.6): delete spans, zero, halve, decrement -- keep a candidate iff
/// the run still produces the same signature. Bounded by `budget` candidate executions.
pub fn minimize(prop: &str, tier: Tier, lanes: Vec<Vec<u64>>, signature: &str, lifted: &[String], budget: usize) -> (Vec<Vec<u64>>, usize) {
    // first: cut every lane to what is actually consumed
    let start = {
        let mut ch = Choices::from_tape(lanes.clone());
        let mut counters = Counters::default();
        let o = RunOpts { prop, tier, record: false, outcomes: false, lifted };
        let out = run_once(&o, &mut ch, &mut counters);
        if matches!(&out.violation, Some(v) if same_class(&v.signature, signature)) {
            out.lanes
        } else {
            return (lanes, 1);
        }
    };
    let mut test = |cand: &Vec<Vec<u64>>| -> bool {
        let mut ch = Choices::from_tape(cand.clone());
        let mut counters = Counters::default();
        let o = RunOpts { prop, tier, record: false, outcomes: false, lifted };
        let out = run_once(&o, &mut ch, &mut counters);
        matches!(&out.violation, Some(v) if same_class(&v.signature, signature))
    };
    minimize_with(start, budget, &mut test)
}

/// the shrinking loop itself; `test` says whether a candidate tape still fails the same way
/// (in-process above; out-of-process for crash-type violations, see parent::minimize_isolated)
pub fn minimize_with(lanes: Vec<Vec<u64>>, budget: usize, test: &mut dyn FnMut(&Vec<Vec<u64>>) -> bool) -> (Vec<Vec<u64>>, usize) {
    let mut best = lanes;
    let mut spent = 0usize;
    let mut try_candidate = |cand: &Vec<Vec<u64>>, spent: &mut usize| -> bool {
        *spent += 1;
        test(cand)
    };
    let mut improved = true;
    while improved && spent < budget {
        improved = false;
        for lane in 0..best.len() {
            // delete spans
            let mut size = best[lane].len().max(1) / 2;
            while size >= 1 && spent < budget {
                let mut start = 0;
                while start + size <= best[lane].len() && spent < budget {
                    let mut cand = best.clone();
                    cand[lane].drain(start..start + size);
                    if try_candidate(&cand, &mut spent) {
                        best = cand;
                        improved = true;
                    } else {
                        start += size;
                    }
                }
                size /= 2;
            }
            // zero / halve / decrement entries
            let mut i = 0;
            while i < best[lane].len() && spent < budget {
                let v = best[lane][i];
                if v != 0 {
                    for nv in [0, v / 2, v - 1] {
                        if nv >= v {
                            continue;
                        }
                        let mut cand = best.clone();
                        cand[lane][i] = nv;
                        if try_candidate(&cand, &mut spent) {
                            best = cand;
                            improved = true;
                            break;
                        }
                    }
                }
                i += 1;
            }
        }
    }
    // trailing zeros are implied
    for l in best.iter_mut() {
        while l.last() == Some(&0) {
            l.pop();
        }
    }
    (best, spent)
}
