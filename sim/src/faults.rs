//! Wire fault kinds (DESIGN 2.3) on a bit delivery `(bytes, bit_len)` and on byte buffers.

use crate::choices::Lane;
use crate::engine::Counters;

pub const WIRE_KINDS: &[&str] = &[
    "W-FLIP", "W-TRUNC-LEN", "W-TRUNC-BYTES", "W-EXTEND", "W-INS", "W-DEL", "W-INSBIT", "W-DELBIT", "W-OVERWRITE", "W-SPLICE", "W-RANDOM", "W-BIGNUM",
];

#[derive(Debug, Clone)]
pub struct Applied {
    pub kind: &'static str,
    pub text: String,
    /// first affected bit (everything before is untouched)
    pub first_bit: usize,
}

fn get_bit(v: &[u8], i: usize) -> bool {
    v[i / 8] & (0x80 >> (i % 8)) != 0
}

fn set_bit(v: &mut [u8], i: usize, b: bool) {
    if b {
        v[i / 8] |= 0x80 >> (i % 8);
    } else {
        v[i / 8] &= !(0x80 >> (i % 8));
    }
}

/// position bias: structurally interesting bits (short reads: flags, indices, determinants) first
fn pick_bit(lane: &mut Lane<'_>, bit_len: usize, targets: &[(usize, usize)]) -> usize {
    if bit_len == 0 {
        return 0;
    }
    if !targets.is_empty() && lane.draw(4) != 0 {
        let (s, n) = targets[lane.draw(targets.len() as u64) as usize];
        let off = lane.draw(n.max(1) as u64) as usize;
        return (s + off).min(bit_len - 1);
    }
    lane.draw(bit_len as u64) as usize
}

/// applies one fault of `kind`; returns None when it cannot fire on this delivery
pub fn apply_bits(
    kind: &'static str,
    bytes: &mut Vec<u8>,
    bit_len: &mut usize,
    lane: &mut Lane<'_>,
    targets: &[(usize, usize)],
    other: Option<(&[u8], usize)>,
) -> Option<Applied> {
    match kind {
        "W-FLIP" => {
            if *bit_len == 0 {
                return None;
            }
            let i = pick_bit(lane, *bit_len, targets);
            let b = get_bit(bytes, i);
            set_bit(bytes, i, !b);
            Some(Applied { kind, text: format!("flip bit {i}"), first_bit: i })
        }
        "W-TRUNC-LEN" => {
            if *bit_len == 0 {
                return None;
            }
            let to = pick_bit(lane, *bit_len, targets);
            let old = *bit_len;
            *bit_len = to;
            Some(Applied { kind, text: format!("declared length {old} -> {to} (bytes kept)"), first_bit: to })
        }
        "W-TRUNC-BYTES" => {
            if *bit_len == 0 {
                return None;
            }
            let to = pick_bit(lane, *bit_len, targets);
            bytes.truncate((to + 7) / 8);
            if to % 8 != 0 {
                let last = bytes.len() - 1;
                bytes[last] &= !(0xffu8 >> (to % 8));
            }
            let old = *bit_len;
            *bit_len = to;
            Some(Applied { kind, text: format!("torn delivery: {old} -> {to} bits, bytes cut"), first_bit: to })
        }
        "W-EXTEND" => {
            let old = *bit_len;
            let add_bytes = lane.draw(9) as usize;
            let fill = match lane.draw(3) {
                0 => 0x00,
                1 => 0xff,
                _ => lane.draw(256) as u8,
            };
            for _ in 0..add_bytes {
                bytes.push(fill);
            }
            let max = bytes.len() * 8;
            if max == old {
                return None;
            }
            let new = old + 1 + lane.draw((max - old) as u64) as usize;
            *bit_len = new;
            Some(Applied { kind, text: format!("declared length {old} -> {new} (+{add_bytes} bytes of {fill:#04x})"), first_bit: old })
        }
        "W-INS" => {
            let at = if bytes.is_empty() { 0 } else { pick_bit(lane, (*bit_len).max(1), targets) / 8 };
            let n = 1 + lane.draw(4) as usize;
            let fill_mode = lane.draw(3);
            for k in 0..n {
                let b = match fill_mode {
                    0 => 0x00,
                    1 => 0xff,
                    _ => lane.draw(256) as u8,
                };
                bytes.insert((at + k).min(bytes.len()), b);
            }
            *bit_len += n * 8;
            Some(Applied { kind, text: format!("insert {n} bytes at byte {at}"), first_bit: at * 8 })
        }
        "W-DEL" => {
            if bytes.is_empty() {
                return None;
            }
            let at = pick_bit(lane, (*bit_len).max(1), targets) / 8;
            let at = at.min(bytes.len() - 1);
            let n = (1 + lane.draw(4) as usize).min(bytes.len() - at);
            bytes.drain(at..at + n);
            let old = *bit_len;
            let removed = old.min((at + n) * 8).saturating_sub(at * 8);
            *bit_len = (old - removed).min(bytes.len() * 8);
            Some(Applied { kind, text: format!("delete {n} bytes at byte {at}"), first_bit: (at * 8).min(*bit_len) })
        }
        "W-INSBIT" => {
            let at = if *bit_len == 0 { 0 } else { pick_bit(lane, *bit_len, targets) };
            let v = lane.draw(2) == 1;
            // shift everything after `at` by one bit
            let old = *bit_len;
            if (old + 1 + 7) / 8 > bytes.len() {
                bytes.push(0);
            }
            let mut i = old;
            while i > at {
                let b = get_bit(bytes, i - 1);
                set_bit(bytes, i, b);
                i -= 1;
            }
            set_bit(bytes, at, v);
            *bit_len = old + 1;
            Some(Applied { kind, text: format!("insert bit {} at {at}", v as u8), first_bit: at })
        }
        "W-DELBIT" => {
            if *bit_len == 0 {
                return None;
            }
            let at = pick_bit(lane, *bit_len, targets);
            let old = *bit_len;
            for i in at..old - 1 {
                let b = get_bit(bytes, i + 1);
                set_bit(bytes, i, b);
            }
            set_bit(bytes, old - 1, false);
            *bit_len = old - 1;
            bytes.truncate((*bit_len + 7) / 8);
            Some(Applied { kind, text: format!("delete bit {at}"), first_bit: at })
        }
        "W-OVERWRITE" => {
            if bytes.is_empty() {
                return None;
            }
            let at = (pick_bit(lane, (*bit_len).max(1), targets) / 8).min(bytes.len() - 1);
            let n = (1 + lane.draw(8) as usize).min(bytes.len() - at);
            let mode = lane.draw(3);
            for k in 0..n {
                bytes[at + k] = match mode {
                    0 => 0x00,
                    1 => 0xff,
                    _ => lane.draw(256) as u8,
                };
            }
            Some(Applied { kind, text: format!("overwrite {n} bytes at byte {at} mode {mode}"), first_bit: at * 8 })
        }
        "W-SPLICE" => {
            let (ob, ol) = other?;
            if ol == 0 || *bit_len == 0 {
                return None;
            }
            let cut = pick_bit(lane, *bit_len, targets);
            let from = lane.draw(ol as u64) as usize;
            let mut nb: Vec<u8> = Vec::with_capacity((cut + (ol - from) + 7) / 8);
            nb.resize((cut + (ol - from) + 7) / 8, 0);
            for i in 0..cut {
                let b = get_bit(bytes, i);
                set_bit(&mut nb, i, b);
            }
            for (k, i) in (from..ol).enumerate() {
                let b = get_bit(ob, i);
                set_bit(&mut nb, cut + k, b);
            }
            *bit_len = cut + (ol - from);
            *bytes = nb;
            Some(Applied { kind, text: format!("splice: bits 0..{cut} then bits {from}..{ol} of another stream"), first_bit: cut })
        }
        "W-BIGNUM" => {
            // field saturation: at a structurally interesting bit (a flag / index / determinant located by
            // the tracing pass) a near-maximal number in PER's long forms is written over the delivery:
            // [flag bits][length octet L][L octets of ones] - the shape of a "normally small" number >= 64,
            // of a semi-constrained / unconstrained integer and of an extension-addition count. Values
            // near u64::MAX are what unchecked `+ 1`, `* 8`, `pos + n`, `as usize` arithmetic trips over.
            let at = if *bit_len == 0 { 0 } else { pick_bit(lane, *bit_len, targets) };
            let prefix: &[bool] = match lane.draw(5) {
                0 => &[],
                1 => &[true],
                2 => &[true, true],
                3 => &[false, true],
                _ => &[true, false, true],
            };
            let l = [8u8, 8, 8, 7, 9, 4][lane.draw(6) as usize];
            let last = [0xffu8, 0xff, 0xfe, 0xfc, 0x7f][lane.draw(5) as usize];
            let mut pattern: Vec<bool> = prefix.to_vec();
            for k in (0..8).rev() {
                pattern.push(l >> k & 1 == 1);
            }
            for o in 0..l {
                let byte = if o + 1 == l { last } else { 0xff };
                for k in (0..8).rev() {
                    pattern.push(byte >> k & 1 == 1);
                }
            }
            let keep_len = lane.draw(3) == 0;
            let end = at + pattern.len();
            if (end + 7) / 8 > bytes.len() {
                bytes.resize((end + 7) / 8, 0);
            }
            for (k, b) in pattern.iter().enumerate() {
                set_bit(bytes, at + k, *b);
            }
            if !keep_len && end > *bit_len {
                *bit_len = end;
            }
            // (keep_len: the declared length stays, i.e. the bitmap / content behind the number is cut off)
            if keep_len && *bit_len < at + prefix.len() + 8 {
                *bit_len = (at + prefix.len() + 8 + l as usize * 8).min(bytes.len() * 8);
            }
            Some(Applied { kind, text: format!("near-maximal number at bit {at}: prefix {:?}, length octet {l}, {l} octets of ones ending {last:#04x}{}", prefix, if keep_len { ", declared length kept" } else { "" }), first_bit: at })
        }
        "W-RANDOM" => {
            let n = lane.draw(40) as usize;
            bytes.clear();
            let mode = lane.draw(4);
            for _ in 0..n {
                bytes.push(match mode {
                    0 => 0x00,
                    1 => 0xff,
                    _ => lane.draw(256) as u8,
                });
            }
            *bit_len = if n == 0 { 0 } else { lane.draw((n * 8 + 1) as u64) as usize };
            Some(Applied { kind, text: format!("{n} random bytes (mode {mode}), declared {} bits", *bit_len), first_bit: 0 })
        }
        _ => None,
    }
}

pub const BYTE_KINDS: &[&str] = &["B-FLIP", "B-TRUNC", "B-INS", "B-DEL", "B-OVERWRITE", "B-RANDOM", "B-EXTEND"];

/// byte-level corruption for DER / protobuf buffers; returns the first affected byte
pub fn apply_bytes(kind: &'static str, bytes: &mut Vec<u8>, lane: &mut Lane<'_>) -> Option<Applied> {
    match kind {
        "B-FLIP" => {
            if bytes.is_empty() {
                return None;
            }
            let i = lane.draw(bytes.len() as u64 * 8) as usize;
            bytes[i / 8] ^= 0x80 >> (i % 8);
            Some(Applied { kind, text: format!("flip bit {i}"), first_bit: i / 8 * 8 })
        }
        "B-TRUNC" => {
            if bytes.is_empty() {
                return None;
            }
            let to = lane.draw(bytes.len() as u64) as usize;
            bytes.truncate(to);
            Some(Applied { kind, text: format!("truncate to {to} bytes"), first_bit: to * 8 })
        }
        "B-INS" => {
            let at = lane.draw(bytes.len() as u64 + 1) as usize;
            let n = 1 + lane.draw(4) as usize;
            let mode = lane.draw(3);
            for k in 0..n {
                let b = match mode {
                    0 => 0x00,
                    1 => 0xff,
                    _ => lane.draw(256) as u8,
                };
                bytes.insert(at + k, b);
            }
            Some(Applied { kind, text: format!("insert {n} bytes at {at}"), first_bit: at * 8 })
        }
        "B-DEL" => {
            if bytes.is_empty() {
                return None;
            }
            let at = lane.draw(bytes.len() as u64) as usize;
            let n = (1 + lane.draw(4) as usize).min(bytes.len() - at);
            bytes.drain(at..at + n);
            Some(Applied { kind, text: format!("delete {n} bytes at {at}"), first_bit: at * 8 })
        }
        "B-OVERWRITE" => {
            if bytes.is_empty() {
                return None;
            }
            let at = lane.draw(bytes.len() as u64) as usize;
            let n = (1 + lane.draw(8) as usize).min(bytes.len() - at);
            let mode = lane.draw(4);
            for k in 0..n {
                bytes[at + k] = match mode {
                    0 => 0x00,
                    1 => 0xff,
                    2 => 0x7f,
                    _ => lane.draw(256) as u8,
                };
            }
            Some(Applied { kind, text: format!("overwrite {n} bytes at {at} mode {mode}"), first_bit: at * 8 })
        }
        "B-RANDOM" => {
            let n = lane.draw(48) as usize;
            bytes.clear();
            let mode = lane.draw(4);
            for _ in 0..n {
                bytes.push(match mode {
                    0 => 0x00,
                    1 => 0xff,
                    _ => lane.draw(256) as u8,
                });
            }
            Some(Applied { kind, text: format!("{n} random bytes mode {mode}"), first_bit: 0 })
        }
        "B-EXTEND" => {
            let n = 1 + lane.draw(8) as usize;
            let at = bytes.len();
            for _ in 0..n {
                let b = lane.draw(256) as u8;
                bytes.push(b);
            }
            Some(Applied { kind, text: format!("append {n} random bytes"), first_bit: at * 8 })
        }
        _ => None,
    }
}

/// swarm style: a run enables a drawn subset of kinds (often exactly one)
pub fn draw_enabled(lane: &mut Lane<'_>, kinds: &'static [&'static str]) -> Vec<&'static str> {
    match lane.draw(3) {
        0 => vec![kinds[lane.draw(kinds.len() as u64) as usize]],
        1 => {
            let mut v = Vec::new();
            for k in kinds {
                if lane.draw(3) == 0 {
                    v.push(*k);
                }
            }
            if v.is_empty() {
                v.push(kinds[lane.draw(kinds.len() as u64) as usize]);
            }
            v
        }
        _ => kinds.to_vec(),
    }
}

pub fn count(counters: &mut Counters, a: &Applied) {
    counters.inc(&format!("fault.{}", a.kind));
}
