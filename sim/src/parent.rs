//! Parent process: spawns worker processes over run-index chunks, triages abnormal exits, replays the
//! pinned known findings, merges results in run-index order, minimises and re-replays new violations,
//! writes evidence and prints KNOWN-FINDING / VIOLATION lines (DESIGN 7).

use crate::engine::{Counters, Tier};
use crate::json::J;
use crate::runner;
use std::collections::{BTreeMap, BTreeSet, HashSet};
use std::io::Read;
use std::path::{Path, PathBuf};
use std::process::{Command, Stdio};
use std::sync::{Arc, Mutex};
use std::time::Instant;

fn arg_val(args: &[String], name: &str) -> Option<String> {
    args.iter().position(|a| a == name).and_then(|i| args.get(i + 1)).cloned()
}

pub struct Plan {
    pub prop: &'static str,
    pub level: &'static str,
    pub quick_runs: u64,
    pub thorough_runs: u64,
    pub chunk: u64,
    /// (build name, fraction of the run indices it executes)
    pub builds: &'static [(&'static str, f64)],
    pub rule: &'static str,
    pub real: &'static [&'static str],
    pub stub: &'static [&'static str],
    pub assumptions: &'static [&'static str],
    pub watchdog_s: u64,
}

pub fn plan(prop: &str) -> Option<Plan> {
    Some(match prop {
        "C01" => Plan {
            prop: "C01",
            level: "exploration",
            quick_runs: 1_000_000,
            thorough_runs: 40_000_000,
            chunk: 2_000,
            builds: &[("checked", 1.0), ("release", 0.25)],
            rule: "one case = one seeded run of the wire simulation with faults OFF: 1-3 producer/consumer pairs, a seeded scheduler interleaving append/snapshot/poll/close on long-lived UperWriter/UperReader objects, zoo types and values drawn by GenReader (valid and unrestricted modes, boundary-biased sizes), deliveries represented exact / with slack bytes / with garbage padding bits. Non-trivial = at least one message was encoded, decoded and compared; distinct = distinct FNV-1a hash of the run's event log (actions, types, value hashes, bit extents).",
            real: &["UperWriter", "UperReader<Bits>", "Bits", "BitBuffer", "PackedRead/PackedWrite", "generated zoo types via asn_to_rust! (tokenizer, parser, resolver, Rust model, generator, attribute macro at build time)"],
            stub: &["transport (in-memory wire)", "allocator accounting wrapper around System"],
            assumptions: &[
                "values are those reachable through GenReader over the public descriptor::Reader trait (canonical BitVec, valid UTF-8)",
                "PartialEq of generated types is the equality of the property",
                "types are the finite zoo under /verif/sim/zoo compiled by asn1rs itself; 'every type the compiler accepts' is sampled by it",
                "scenarios inside the domain predicate of an open known finding are re-drawn (counted as known.<id>.redirected_draws)",
            ],
            watchdog_s: 60,
        },
        "C04" => Plan {
            prop: "C04",
            level: "fault_enumeration",
            quick_runs: 1_200_000,
            thorough_runs: 40_000_000,
            chunk: 2_500,
            builds: &[("checked", 1.0), ("release", 0.5)],
            rule: "one case = one seeded run of the wire simulation with faults ON: a producer appends 1-4 zoo messages to one long-lived writer (UPER, 70%), or encodes one protobuf message (20%), or a DER item stream through an io::Write shim (10%); a clean tracing pass (TraceBits) locates flags/indices/length determinants; 1-3 corruptions of swarm-selected kinds hit the delivery (bit flip, declared-length truncation, torn bytes, extension, byte/bit insertion and deletion, overwrite, splice, random bytes, cross-type decode; under the DER reader additionally short reads, EINTR, EOF@k, hard error@k); the consumer decodes the plan twice with different slack beyond the declared length. Oracles: O1 no panic, O2 no abort/stack overflow/hang (child exit status + watchdog), O3 allocation budget 32 MiB + 32768 x input bytes (counting global allocator), O4 no Ok with pos > len and no slack-dependent Ok, O5 accessors callable after a failed read; messages wholly before the first affected bit stay under the exact oracle. Non-trivial = at least one fault actually fired; distinct = distinct event-log hash (delivery hash, per-read outcome and position).",
            real: &["UperReader<Bits>", "Bits", "PackedRead", "UperWriter (producer)", "ProtobufReader", "ProtoRead", "ProtobufWriter (producer)", "BasicReader/BasicRead (DER)", "BasicWriter/BasicWrite (producer)", "generated zoo types"],
            stub: &["transport (in-memory wire + fault process)", "io::Read/io::Write objects (FaultyRead/FaultyWrite)", "allocator accounting wrapper around System (refuses > 1 GiB single / > 2 GiB live)"],
            assumptions: &[
                "target types are the finite zoo incl. hostile-length types; element types of hostile lists are at least 1 bit wide so the allocation budget is sound",
                "hard I/O errors other than EOF under the DER reader are outside 'for every byte string' and only give diagnostics",
                "a read after a failed read on the same reader is outside the statement (diagnostic only)",
                "both build profiles run: 'checked' (release + debug-assertions + overflow-checks = what a cargo test/debug user gets) and plain 'release'",
            ],
            watchdog_s: 20,
        },
        "C05" => Plan {
            prop: "C05",
            level: "exploration",
            quick_runs: 600_000,
            thorough_runs: 30_000_000,
            chunk: 5_000,
            builds: &[("checked", 1.0)],
            rule: "one case = one seeded run of the wire simulation in a version-skew configuration: a chain role (SEQUENCE / SET / DEFAULT-only SEQUENCE / CHOICE / ENUMERATED chains of 4-9 versions, each as the type itself, inside SEQUENCE { m, tail }, inside SEQUENCE OF and as OPTIONAL component followed by a string) and two versions lo < hi are drawn; the sender writes 1-6 messages plus a sentinel into ONE writer, the receiver decodes them with the other version. Values: v_low = GenReader(valid mode) at lo; v_high = TreeReader(tree(v_low)) at hi with the new additions / alternatives / values drawn (payloads up to 300 octets so open-type lengths cross 127/128). Oracle old->new: Ok, equals TreeReader(tree(v_low), all new absent), consumed bits == message extent, sentinel decodes, 0 bits remain. new->old: Ok and equals v_low with exact extent, except that a selected unknown alternative/value may give Err (then nothing more is asserted) but never Ok. Non-trivial = at least one message decoded under the other version (or an accepted Err for an unknown selection); distinct = distinct event-log hash.",
            real: &["UperWriter", "UperReader<Bits>", "generated version-chain types (sim/zoo/chain_*.asn1, generated by tools/gen_chains.py) compiled by asn1rs itself"],
            stub: &["transport (in-memory wire)", "peer configuration: both versions live in one process as distinct Rust types"],
            assumptions: &[
                "schema evolution = appending extension additions / alternatives / values only (what the property states); AUTOMATIC TAGS",
                "sender-side refusals (ExtensionFieldsInconsistent) are skipped and counted",
                "TreeReader aligns the versions positionally (appended additions keep the first n positions; in a SET appended additions get the highest context tags and sort last)",
                "scenarios inside the domain predicate of the open known finding D8 are re-drawn",
            ],
            watchdog_s: 20,
        },
        "C11" => Plan {
            prop: "C11",
            level: "exploration",
            quick_runs: 3_000_000,
            thorough_runs: 150_000_000,
            chunk: 10_000,
            builds: &[("checked", 1.0), ("release", 0.25)],
            rule: "one case = one seeded operation history on one bit store (BitBuffer 50%, (&mut [u8], &mut usize) 30%, (&[u8], &mut usize) / Bits 20%) checked operation by operation against a Vec<bool> model: write_bit, the four write_bits* variants, the five read_* variants, with_write_position_at, with_max_read, reset_read_position, clear, set_pos/set_len, from_bits, Bits::from(&BitBuffer). Arguments: sources/destinations of 0-64 bytes with 0x00/0xFF/patterned/random fill, offsets and lengths biased to the (src%8, dst%8, len%8) classes, the bulk threshold (16 bits), exact fit, one bit short. Faults: fixed-slice destinations with too little room (DST-FULL), sources shorter than offset+len (SRC-SHORT), reads at and past the end. Non-trivial = at least two successful operations; distinct = distinct event-log hash (operation, arguments, fit).",
            real: &["BitBuffer", "Bits", "(&[u8], &mut usize) BitRead", "(&mut [u8], &mut usize) BitWrite", "bit_string_copy / bit_string_copy_bulked"],
            stub: &["none (the stores are the system; the model is a Vec<bool>)"],
            assumptions: &[
                "documented panics (# Panics sections, constructor assert!s) are preconditions and respected",
                "with_write_position_at is only used to patch bits at already written positions (what UperWriter does); ensure_can_write_additional_bits is treated as an internal reservation helper and not called directly, since reserving necessarily makes the buffer longer than ceil(bit_len/8)",
                "content and cursor after a failed operation are unspecified: the model re-synchronises from the real store; the BitBuffer length/padding invariant is still checked because the property says 'always'",
                "the property's 'exhaustive for <= 5 bytes' clause is an enumeration and is not done here; small buffers are sampled more often",
            ],
            watchdog_s: 20,
        },
        "C20" => Plan {
            prop: "C20",
            level: "fault_enumeration",
            quick_runs: 1_500_000,
            thorough_runs: 60_000_000,
            chunk: 10_000,
            builds: &[("checked", 1.0)],
            rule: "one case = one seeded run of the I/O simulation over DER: a producer writes a stream of 1-8 items (write_identifier 4 classes x number < 31, write_length, write_boolean, write_integer_i64/u64 with values from the boundary families around 2^(7k), 2^(8k), i64/u64 extremes; typed BOOLEAN, INTEGER of all eight Rust widths and generated ENUMERATED types through DER::writer) into a pipe behind a FaultyWrite (short writes, EINTR), a consumer reads them back behind a FaultyRead (short reads, EINTR): every item equal, bytes consumed after item k == bytes produced up to item k, nothing remains. Modes per run: legal I/O only (60%), IO-CRASH@k on the writer (items complete before k must read back exactly), failing reader EOF@k / error@k (diagnostic), boolean content octet replaced by another non-zero octet (must read true), and fault-point enumeration (every byte offset for crash / EOF / error and chunk sizes 1..8 for streams <= 64 bytes). Non-trivial = at least one item written and read back; distinct = distinct event-log hash (stream bytes, per-item positions, crash points).",
            real: &["BasicRead/BasicWrite blanket impls over io::Read/io::Write", "BasicReader/BasicWriter (DER::reader / DER::writer)", "generated ENUMERATED zoo types", "descriptor Integer<T, NoConstraint> / Boolean<NoConstraint>"],
            stub: &["io::Read / io::Write objects (FaultyRead/FaultyWrite over an in-memory pipe)"],
            assumptions: &[
                "read_integer_i64/u64 are given the byte length the writer produced for that item (the primitives carry no length of their own)",
                "under failing I/O (crash, EOF, hard error) only 'items that were completely written read back exactly' is asserted; everything else the property is silent about is a diagnostic",
                "canonical DER form and tag numbers >= 31 are not checked (the property is round trip only)",
            ],
            watchdog_s: 20,
        },
        "C12" => Plan {
            prop: "C12",
            level: "exploration",
            quick_runs: 150_000,
            thorough_runs: 5_000_000,
            chunk: 2_500,
            builds: &[("checked", 1.0)],
            rule: "one case = one seeded run of the front-end environment simulation: a generator draws a small schema (1-6 definitions: INTEGER ranges, SIZE constraints of strings / lists, DEFAULT values of integer / boolean / string components inside SEQUENCE, CHOICE, SET), prints it once with literals and once with a drawn subset of the literals replaced by value references that live in the same module (before or after their use), in a sibling imported by name, in a sibling with OID imported by name + OID, or in a sibling imported under another name with the right OID (match by OID only); optionally a same-named module with another OID and other values (decoy) and an unrelated module are added. The environment loads the module set in EVERY permutation (<= 4 modules) or 8 sampled ones through Tokenizer -> Model::try_from -> MultiModuleResolver::push -> try_resolve_all. Oracle: in every load order the resolved definitions of the referencing module equal (Debug of Vec<Definition<Asn<Resolved>>>) those of the literal module; fault E-MISSING (a needed sibling not loaded), a reference renamed to an undefined name, and a BOOLEAN/string value where an integer bound is needed must give Err, never Ok. Non-trivial = at least one reference was resolved in every order; distinct = distinct event-log hash.",
            real: &["Tokenizer", "Model::try_from", "MultiModuleResolver::{push,try_resolve_all}", "ResolveScope / LitOrRef resolvers"],
            stub: &["file system and read_dir order (an in-memory module set loaded in a drawn permutation; Converter itself is not executed)"],
            assumptions: &[
                "claimed narrowly: the environment dimension (module set, load order, match by name vs OID, missing module) is decided; the schema dimension is only sampled by a small generator",
                "equality = Debug text of the resolved definitions",
            ],
            watchdog_s: 20,
        },
        "C14" => Plan {
            prop: "C14",
            level: "fault_enumeration",
            quick_runs: 250_000,
            thorough_runs: 8_000_000,
            chunk: 2_500,
            builds: &[("checked", 1.0)],
            rule: "one case = one seeded run of the front-end environment simulation: 1-3 module texts drawn from the corpus (the zoo modules, hand-written modules under /verif/corpus covering imports with OIDs, value references, WITH COMPONENTS, nested comments, tags of every class, recursive types, and every inline module of /repo/tests/*.rs) receive 1-4 storage faults of swarm-selected kinds (T-TRUNC torn file, T-DELCH/T-INSCH one char, T-DELTOK/T-DUPTOK/T-SWAPTOK/T-INSTOK/T-REPTOK token granularity incl. replacing a token by another one of the same module, T-NUM number replaced by empty/huge/negative/non-numeric) or a token soup is drawn (T-SOUP), or (1 run in 20) a definition nested 2..40 000 levels deep in one of six forms is added to a corpus module (T-NEST); the result goes through Tokenizer.parse -> Model::try_from -> try_resolve / MultiModuleResolver::try_resolve_all -> to_rust / to_rust_with_scope -> to_protobuf, each stage only if the previous returned Ok. Oracle: no panic other than the sanctioned unclosed-comment one; no abort, stack overflow or hang (child process exit status + watchdog). 1 in 80 quick runs (1 in 20 thorough) enumerates every fault position of one corpus module (every truncation point, every single token deleted, every adjacent pair swapped). Non-trivial = the tokenizer produced >= 10 tokens; distinct = distinct event-log hash (stage reach, token count).",
            real: &["Tokenizer", "Model::try_from", "Model::try_resolve", "MultiModuleResolver::{push,try_resolve_all}", "Model::to_rust / to_rust_with_scope", "ToProtobufModel::to_protobuf"],
            stub: &["file system (an in-memory set of module texts; Converter::load_file's four lines are re-stated in the harness, Converter itself is not executed)"],
            assumptions: &[
                "whether an edited module is accepted or rejected, and error contents, are not checked",
                "code generation (RustCodeGenerator::to_string, the attribute macro) is outside this property's statement and not executed",
            ],
            watchdog_s: 20,
        },
        "C17" => Plan {
            prop: "C17",
            level: "exploration",
            quick_runs: 800_000,
            thorough_runs: 30_000_000,
            chunk: 5_000,
            builds: &[("checked", 1.0)],
            rule: "one case = one seeded run over protobuf: (70%) a producer writes the same zoo value (valid mode) through ProtobufWriter::default() and through ProtobufWriter::from(&mut [u8]) whose capacity is drawn (exact fit, generous, one byte short, random smaller, zero = IO-FULL), a consumer reads the bytes with ProtobufReader; oracle: whenever a back end returns Ok its as_bytes / len_written / into_bytes_vec equal the other back end's, and the decoded value is proto-equal to the original (value trees equal after mapping a present zero-ish OPTIONAL to absent); (30%) a stream of ProtoWrite primitives (varint, bool, sint32/64, uint32/64, tag, sfixed32, enum variant, bytes, string) goes through a FaultyWrite and comes back through a FaultyRead with short transfers and EINTR: every value equal, consuming exactly the bytes produced; EOF@k / error@k / zero-length writes give diagnostics only. Non-trivial = a value or primitive stream was read back; distinct = distinct event-log hash.",
            real: &["ProtobufWriter (Vec and fixed-slice back ends)", "ProtobufReader", "ProtoWrite/ProtoRead blanket impls over io::Write/io::Read", "generated zoo types"],
            stub: &["io::Read / io::Write objects (FaultyRead/FaultyWrite)", "fixed destination capacity"],
            assumptions: &[
                "values are generated in valid mode (the protobuf writer narrows by `as`, out-of-constraint values are outside what the property can mean)",
                "proto-equality = equality of value trees modulo 'absent OPTIONAL == present zero-ish value' (0, false, empty string/bytes/list, first ENUMERATED value, structures of zero-ish fields)",
                "bytes left in a slice after a failed write and writer reuse after failure are not checked",
                "values inside the domain predicate of an open known finding are skipped (counted as known.<id>.redirected_draws)",
            ],
            watchdog_s: 12,
        },
        "C19" => Plan {
            prop: "C19",
            level: "exploration",
            quick_runs: 600_000,
            thorough_runs: 20_000_000,
            chunk: 5_000,
            builds: &[("checked", 1.0), ("dde", 1.0)],
            rule: "one case = one seeded run of the C04 UPER scenario generator (1-4 zoo messages in one writer, 0-3 wire faults of swarm-selected kinds, optional cross-type decode; 25% of the cases with outcomes-only are fault-free) executed in TWO processes built differently: default features and +descriptive-deserialize-errors. Each emits per decode attempt: Ok + value-tree hash or Err + ErrorKind variant and payload hash (backtraces excluded) or panic site, reader position and length afterwards, whether bits_remaining() panicked. Oracle: the two outcome logs are identical line by line (and the per-chunk event-log hashes agree). Non-trivial = at least one decode attempt; distinct = distinct event-log hash.",
            real: &["UperReader<Bits> built with and without feature descriptive-deserialize-errors", "UperWriter (producer)", "generated zoo types"],
            stub: &["transport (in-memory wire + fault process)"],
            assumptions: &[
                "determinism of the simulator (one tape = one history) is what allows the same history to run in two processes; it is re-checked by the determinism resample of every run",
                "error equality = ErrorKind variant + payload (Debug without backtraces); diagnostics content is not compared",
            ],
            watchdog_s: 20,
        },
        _ => return None,
    })
}

/// ids of domain predicates the generators know about (DESIGN 6)
/// abnormal worker exits triaged so far (each one can cost a watchdog period): capped
static ABNORMAL_TRIAGED: std::sync::atomic::AtomicU64 = std::sync::atomic::AtomicU64::new(0);
const MAX_ABNORMAL_TRIAGED: u64 = 6;
static WANT_OUTCOMES: std::sync::atomic::AtomicBool = std::sync::atomic::AtomicBool::new(false);
static HASH_SAMPLE: std::sync::atomic::AtomicU64 = std::sync::atomic::AtomicU64::new(1);

pub const ALL_DOMAINS: &[&str] = &["D5", "D6", "D7", "D8", "D11", "D11c", "D12", "D13", "D14", "D15", "D17"];

impl Finding {
    fn matches(&self, sig: &str) -> bool {
        if self.signature_prefix.is_empty() && self.signature_contains.is_empty() {
            return false;
        }
        (self.signature_prefix.is_empty() || sig.starts_with(&self.signature_prefix)) && (self.signature_contains.is_empty() || sig.contains(&self.signature_contains))
    }
}

struct Finding {
    id: String,
    property: String,
    status: String,
    signature_prefix: String,
    signature_contains: String,
    /// a fragment some event line of the pinned replay must contain, else the pin is stale
    must_contain_event: String,
    /// the finding is only recognised in its pinned replay, never attributed during exploration
    replay_only: bool,
    replay: Option<String>,
    what: String,
    commit: Option<String>,
}

fn load_findings(root: &Path) -> Vec<Finding> {
    let p = root.join("known_findings.json");
    let Ok(text) = std::fs::read_to_string(&p) else { return Vec::new() };
    let j = J::parse(&text).unwrap_or_else(|e| {
        eprintln!("HARNESS: cannot parse {}: {e}", p.display());
        std::process::exit(2)
    });
    let mut v = Vec::new();
    for e in j.get("findings").and_then(J::as_arr).unwrap_or(&[]) {
        let s = |k: &str| e.get(k).and_then(J::as_str).map(str::to_string);
        v.push(Finding {
            id: s("id").unwrap_or_default(),
            property: s("property").unwrap_or_default(),
            status: s("status").unwrap_or_else(|| "open".into()),
            signature_prefix: s("signature_prefix").unwrap_or_default(),
            signature_contains: s("signature_contains").unwrap_or_default(),
            must_contain_event: s("must_contain_event").unwrap_or_default(),
            replay_only: matches!(e.get("replay_only"), Some(J::Bool(true))),
            replay: s("replay"),
            what: s("what").unwrap_or_default(),
            commit: s("commit"),
        });
    }
    v
}

struct Bins {
    map: BTreeMap<String, PathBuf>,
}

impl Bins {
    fn get(&self, name: &str) -> &Path {
        self.map.get(name).map(|p| p.as_path()).unwrap_or_else(|| {
            eprintln!("HARNESS: build '{name}' was not provided (--bins)");
            std::process::exit(2)
        })
    }
}

#[derive(Debug)]
enum ChildEnd {
    Ok(J),
    /// abnormal: (class, run if known, stderr tail)
    Abnormal(String, Option<u64>, String),
}

fn spawn_worker(bin: &Path, args: &[String], mem_kb: u64) -> ChildEnd {
    let mut cmdline = format!("ulimit -v {mem_kb}; exec {}", shell_quote(&bin.display().to_string()));
    for a in args {
        cmdline.push(' ');
        cmdline.push_str(&shell_quote(a));
    }
    let child = Command::new("sh").arg("-c").arg(&cmdline).stdin(Stdio::null()).stdout(Stdio::piped()).stderr(Stdio::piped()).spawn();
    let mut child = match child {
        Ok(c) => c,
        Err(e) => return ChildEnd::Abnormal(format!("spawn-failed: {e}"), None, String::new()),
    };
    let mut out = String::new();
    let mut err = String::new();
    let mut so = child.stdout.take().unwrap();
    let mut se = child.stderr.take().unwrap();
    let t = std::thread::spawn(move || {
        let mut s = String::new();
        let _ = se.read_to_string(&mut s);
        s
    });
    let _ = so.read_to_string(&mut out);
    if let Ok(s) = t.join() {
        err = s;
    }
    let status = child.wait();
    let tail: String = err.lines().rev().take(12).collect::<Vec<_>>().into_iter().rev().collect::<Vec<_>>().join("\n");
    let find_run = |marker: &str| -> Option<u64> {
        err.lines().rev().find_map(|l| l.strip_prefix(marker)).and_then(|r| r.split_whitespace().next()).and_then(|r| r.strip_prefix("run=")).and_then(|r| r.parse().ok())
    };
    match status {
        Ok(st) if st.success() => match J::parse(out.trim()) {
            Ok(j) => ChildEnd::Ok(j),
            Err(e) => ChildEnd::Abnormal(format!("bad-output: {e}"), None, tail),
        },
        Ok(st) => {
            use std::os::unix::process::ExitStatusExt;
            if let Some(run) = find_run("HANG ") {
                return ChildEnd::Abnormal("hang".into(), Some(run), tail);
            }
            if let Some(run) = find_run("ALLOCFAIL ") {
                return ChildEnd::Abnormal("alloc-refused".into(), Some(run), tail);
            }
            if err.contains("has overflowed its stack") {
                return ChildEnd::Abnormal("stack-overflow".into(), None, tail);
            }
            if err.contains("memory allocation of") {
                return ChildEnd::Abnormal("alloc-failed".into(), None, tail);
            }
            match (st.code(), st.signal()) {
                (_, Some(sig)) => ChildEnd::Abnormal(format!("signal-{sig}"), None, tail),
                (Some(c), _) => ChildEnd::Abnormal(format!("exit-{c}"), None, tail),
                _ => ChildEnd::Abnormal("unknown".into(), None, tail),
            }
        }
        Err(e) => ChildEnd::Abnormal(format!("wait-failed: {e}"), None, tail),
    }
}

fn shell_quote(s: &str) -> String {
    format!("'{}'", s.replace('\'', "'\\''"))
}

#[derive(Clone)]
struct FoundViolation {
    build: String,
    run: u64,
    signature: String,
    detail: String,
    /// None for crash-type violations (tape regenerated from seed/run)
    lanes: Option<Vec<Vec<u64>>>,
}

struct Merged {
    counters: Counters,
    runs: u64,
    steps: u64,
    draws: u64,
    nontrivial: u64,
    violations: Vec<FoundViolation>,
    samples: Vec<J>,
    chunk_hashes: BTreeMap<(String, u64), String>,
    harness_errors: Vec<String>,
}

struct Job {
    build: String,
    from: u64,
    to: u64,
}

#[allow(clippy::too_many_arguments)]
fn run_jobs(jobs: Vec<Job>, bins: &Bins, prop: &str, tier: Tier, seed: u64, lifted: &[String], workers: usize, tmp: &Path, watchdog_s: u64, want_samples: bool) -> (Merged, HashSet<u64>, HashSet<u64>) {
    let queue = Arc::new(Mutex::new(jobs.into_iter().enumerate().collect::<Vec<_>>()));
    queue.lock().unwrap().reverse();
    let results: Arc<Mutex<Vec<(usize, Job, ChildEnd, PathBuf)>>> = Arc::new(Mutex::new(Vec::new()));
    let mut handles = Vec::new();
    for w in 0..workers {
        let queue = queue.clone();
        let results = results.clone();
        let prop = prop.to_string();
        let lifted = lifted.to_vec();
        let tmp = tmp.to_path_buf();
        let bin_map: BTreeMap<String, PathBuf> = bins.map.clone();
        handles.push(std::thread::spawn(move || loop {
            let item = queue.lock().unwrap().pop();
            let Some((idx, job)) = item else { break };
            let hash_path = tmp.join(format!("h{idx}.bin"));
            let mut args = vec![
                "worker".to_string(),
                "--prop".into(),
                prop.clone(),
                "--tier".into(),
                tier.name().into(),
                "--seed".into(),
                seed.to_string(),
                "--from".into(),
                job.from.to_string(),
                "--to".into(),
                job.to.to_string(),
                "--hash-out".into(),
                hash_path.display().to_string(),
                "--watchdog".into(),
                watchdog_s.to_string(),
                "--hash-sample".into(),
                HASH_SAMPLE.load(std::sync::atomic::Ordering::Relaxed).to_string(),
            ];
            if !lifted.is_empty() {
                args.push("--lift".into());
                args.push(lifted.join(","));
            }
            if WANT_OUTCOMES.load(std::sync::atomic::Ordering::Relaxed) {
                args.push("--outcomes-out".into());
                args.push(tmp.join(format!("o-{}-{}.txt", job.build, job.from)).display().to_string());
            }
            if want_samples && idx < 2 && w < 4 {
                args.push("--samples".into());
                args.push("2".into());
            }
            let bin = bin_map.get(&job.build).cloned().unwrap_or_default();
            let end = spawn_worker(&bin, &args, 4 * 1024 * 1024);
            results.lock().unwrap().push((idx, job, end, hash_path));
        }));
    }
    for h in handles {
        let _ = h.join();
    }
    let mut results = std::mem::take(&mut *results.lock().unwrap());
    results.sort_by_key(|r| r.0);

    let mut m = Merged {
        counters: Counters::default(),
        runs: 0,
        steps: 0,
        draws: 0,
        nontrivial: 0,
        violations: Vec::new(),
        samples: Vec::new(),
        chunk_hashes: BTreeMap::new(),
        harness_errors: Vec::new(),
    };
    let mut distinct: HashSet<u64> = HashSet::new();
    let mut shapes: HashSet<u64> = HashSet::new();
    for (_idx, job, end, hash_path) in results {
        match end {
            ChildEnd::Ok(j) => {
                absorb(&mut m, &job, &j);
                if let Ok(bytes) = std::fs::read(&hash_path) {
                    if bytes.len() >= 8 {
                        let n = u64::from_le_bytes(bytes[0..8].try_into().unwrap()) as usize;
                        for (k, c) in bytes[8..].chunks_exact(8).enumerate() {
                            let h = u64::from_le_bytes(c.try_into().unwrap());
                            if k < n {
                                distinct.insert(h);
                            } else {
                                shapes.insert(h);
                            }
                        }
                    }
                }
                let _ = std::fs::remove_file(&hash_path);
            }
            ChildEnd::Abnormal(class, run, tail) => {
                if ABNORMAL_TRIAGED.fetch_add(1, std::sync::atomic::Ordering::Relaxed) >= MAX_ABNORMAL_TRIAGED {
                    // enough abnormal exits located exactly; the rest is only counted (not explored further)
                    m.counters.inc(&format!("abnormal_not_triaged.{class}"));
                    m.counters.add("runs_not_executed_because_chunk_ended_abnormally", job.to - job.from);
                    m.violations.push(FoundViolation { build: job.build.clone(), run: run.unwrap_or(job.from), signature: format!("{prop}/process-{class}"), detail: format!("worker process ended abnormally ({class}) in chunk {}..{}; stderr tail:\n{tail}", job.from, job.to), lanes: None });
                    continue;
                }
                // triage: find the run (determinism makes this exact), then run the rest of the chunk
                triage(&mut m, &mut distinct, &mut shapes, &job, class, run, tail, bins, prop, tier, seed, lifted, tmp, watchdog_s);
            }
        }
    }
    (m, distinct, shapes)
}

fn absorb(m: &mut Merged, job: &Job, j: &J) {
    m.runs += j.get("runs").and_then(J::as_u64).unwrap_or(0);
    m.steps += j.get("steps").and_then(J::as_u64).unwrap_or(0);
    m.draws += j.get("draws").and_then(J::as_u64).unwrap_or(0);
    m.nontrivial += j.get("nontrivial").and_then(J::as_u64).unwrap_or(0);
    if let Some(J::Obj(c)) = j.get("counters") {
        let mut cs = Counters::default();
        for (k, v) in c {
            cs.0.insert(k.clone(), v.as_u64().unwrap_or(0));
        }
        m.counters.merge(&cs);
    }
    if let Some(h) = j.get("chunk_hash").and_then(J::as_str) {
        m.chunk_hashes.insert((job.build.clone(), job.from), h.to_string());
    }
    for v in j.get("violations").and_then(J::as_arr).unwrap_or(&[]) {
        m.violations.push(FoundViolation {
            build: job.build.clone(),
            run: v.get("run").and_then(J::as_u64).unwrap_or(0),
            signature: v.get("signature").and_then(J::as_str).unwrap_or("").to_string(),
            detail: v.get("detail").and_then(J::as_str).unwrap_or("").to_string(),
            lanes: v.get("lanes").map(runner::lanes_from_json),
        });
    }
    if m.samples.len() < 6 {
        for s in j.get("samples").and_then(J::as_arr).unwrap_or(&[]) {
            if m.samples.len() < 6 {
                m.samples.push(s.clone());
            }
        }
    }
}

#[allow(clippy::too_many_arguments)]
fn triage(m: &mut Merged, distinct: &mut HashSet<u64>, shapes: &mut HashSet<u64>, job: &Job, class: String, run: Option<u64>, tail: String, bins: &Bins, prop: &str, tier: Tier, seed: u64, lifted: &[String], tmp: &Path, watchdog_s: u64) {
    let mk_args = |from: u64, to: u64, hash: &Path| -> Vec<String> {
        let mut a = vec![
            "worker".to_string(),
            "--prop".into(),
            prop.to_string(),
            "--tier".into(),
            tier.name().into(),
            "--seed".into(),
            seed.to_string(),
            "--from".into(),
            from.to_string(),
            "--to".into(),
            to.to_string(),
            "--hash-out".into(),
            hash.display().to_string(),
            "--watchdog".into(),
            watchdog_s.to_string(),
            "--hash-sample".into(),
            HASH_SAMPLE.load(std::sync::atomic::Ordering::Relaxed).to_string(),
        ];
        if !lifted.is_empty() {
            a.push("--lift".into());
            a.push(lifted.join(","));
        }
        a
    };
    let bin = bins.get(&job.build);
    let hash = tmp.join(format!("t{}_{}.bin", job.from, job.to));
    // iterative: [lo, hi) is the part of the chunk not yet accounted for
    let mut lo = job.from;
    let hi = job.to;
    let mut pending: Option<(String, Option<u64>, String)> = Some((class, run, tail));
    let mut guard_iters = 0;
    while lo < hi && guard_iters < 8 {
        guard_iters += 1;
        let (class, run, tail) = match pending.take() {
            Some(p) => p,
            None => match spawn_worker(bin, &mk_args(lo, hi, &hash), 4 * 1024 * 1024) {
                ChildEnd::Ok(j) => {
                    absorb(m, &Job { build: job.build.clone(), from: lo, to: hi }, &j);
                    read_hashes(&hash, distinct, shapes);
                    m.chunk_hashes.remove(&(job.build.clone(), lo));
                    lo = hi;
                    continue;
                }
                ChildEnd::Abnormal(c, r, t) => (c, r, t),
            },
        };
        // locate the failing run
        let bad = match run {
            Some(r) if r >= lo && r < hi => r,
            _ => {
                // bisect on [lo, hi): the first failing run is the smallest r such that [lo, r+1) fails
                let (mut a, mut b) = (lo, hi); // invariant: [lo, a) succeeds, [lo, b) fails
                while b - a > 1 {
                    let mid = a + (b - a) / 2;
                    match spawn_worker(bin, &mk_args(lo, mid, &hash), 4 * 1024 * 1024) {
                        ChildEnd::Ok(_) => a = mid,
                        ChildEnd::Abnormal(..) => b = mid,
                    }
                }
                b - 1
            }
        };
        // account for [lo, bad)
        if bad > lo {
            match spawn_worker(bin, &mk_args(lo, bad, &hash), 4 * 1024 * 1024) {
                ChildEnd::Ok(j) => {
                    absorb(m, &Job { build: job.build.clone(), from: lo, to: bad }, &j);
                    read_hashes(&hash, distinct, shapes);
                    m.chunk_hashes.remove(&(job.build.clone(), lo));
                }
                ChildEnd::Abnormal(c, _, t) => {
                    m.harness_errors.push(format!("triage of chunk {}..{} ({}) is not deterministic: prefix {}..{} ended {} / {}", job.from, job.to, job.build, lo, bad, c, t));
                    return;
                }
            }
        }
        m.runs += 1;
        m.counters.inc(&format!("abnormal.{class}"));
        m.violations.push(FoundViolation {
            build: job.build.clone(),
            run: bad,
            signature: format!("{prop}/process-{class}"),
            detail: format!("worker process ended abnormally ({class}) in run {bad}; stderr tail:\n{tail}"),
            lanes: None,
        });
        lo = bad + 1;
    }
    let _ = std::fs::remove_file(&hash);
}

fn read_hashes(p: &Path, distinct: &mut HashSet<u64>, shapes: &mut HashSet<u64>) {
    if let Ok(bytes) = std::fs::read(p) {
        if bytes.len() >= 8 {
            let n = u64::from_le_bytes(bytes[0..8].try_into().unwrap()) as usize;
            for (k, c) in bytes[8..].chunks_exact(8).enumerate() {
                let h = u64::from_le_bytes(c.try_into().unwrap());
                if k < n {
                    distinct.insert(h);
                } else {
                    shapes.insert(h);
                }
            }
        }
    }
}

/// C19: the outcome logs of the two builds must be identical line by line
fn compare_outcomes(m: &mut Merged, tmp: &Path, runs: u64, chunk: u64) {
    let mut from = 0;
    let mut compared_lines = 0u64;
    while from < runs {
        let a = tmp.join(format!("o-checked-{from}.txt"));
        let b = tmp.join(format!("o-dde-{from}.txt"));
        let ta = std::fs::read_to_string(&a);
        let tb = std::fs::read_to_string(&b);
        match (ta, tb) {
            (Ok(ta), Ok(tb)) => {
                let mut ia = ta.lines();
                let mut ib = tb.lines();
                loop {
                    match (ia.next(), ib.next()) {
                        (None, None) => break,
                        (la, lb) if la == lb => compared_lines += 1,
                        (la, lb) => {
                            let run = la.or(lb).and_then(|l| l.split_whitespace().next()).and_then(|r| r.parse().ok()).unwrap_or(from);
                            let class = |l: Option<&str>| -> String {
                                match l {
                                    None => "missing".to_string(),
                                    Some(l) => {
                                        if l.contains(" Ok(") {
                                            "Ok".into()
                                        } else if l.contains(" Panic(") {
                                            "Panic".into()
                                        } else {
                                            l.split("Err(\"").nth(1).and_then(|r| r.split(|c| c == '#' || c == '"').next()).unwrap_or("Err").to_string()
                                        }
                                    }
                                }
                            };
                            m.violations.push(FoundViolation {
                                build: "dde".into(),
                                run,
                                signature: format!("C19/outcome-differs/default={}/feature={}", class(la), class(lb)),
                                detail: format!("default build: {:?}; +descriptive-deserialize-errors: {:?}", la, lb),
                                lanes: None,
                            });
                            break;
                        }
                    }
                }
            }
            _ => {
                // a chunk that ended abnormally in one build is reported through triage already
            }
        }
        let _ = std::fs::remove_file(&a);
        let _ = std::fs::remove_file(&b);
        from += chunk;
    }
    m.counters.add("c19.outcome_lines_compared", compared_lines);
    // the event-log hashes of the two builds must agree as well
    let keys: Vec<(String, u64)> = m.chunk_hashes.keys().filter(|k| k.0 == "checked").cloned().collect();
    for (_, from) in keys {
        let a = m.chunk_hashes.get(&("checked".to_string(), from)).cloned();
        let b = m.chunk_hashes.get(&("dde".to_string(), from)).cloned();
        if let (Some(a), Some(b)) = (a, b) {
            if a != b && !m.violations.iter().any(|v| v.signature.starts_with("C19/") && v.run >= from && v.run < from + chunk) {
                m.violations.push(FoundViolation { build: "dde".into(), run: from, signature: "C19/event-log-hash-differs".into(), detail: format!("chunk from {from}: {a} vs {b}"), lanes: None });
            }
        }
    }
}

fn slug(s: &str) -> String {
    let mut o = String::new();
    for c in s.chars() {
        if c.is_ascii_alphanumeric() {
            o.push(c);
        } else if !o.ends_with('-') {
            o.push('-');
        }
    }
    let o = o.trim_matches('-').to_string();
    if o.len() > 80 {
        format!("{}-{:08x}", &o[..70], crate::choices::fnv1a(s.as_bytes()) as u32)
    } else {
        o
    }
}

struct ReplayOutcome {
    signature: Option<String>,
    detail: String,
    event_hash: String,
    events: Vec<String>,
    scenario: Vec<String>,
    abnormal: Option<String>,
}

fn replay_file_in_child(bin: &Path, file: &Path, watchdog_s: u64) -> ReplayOutcome {
    let args = vec!["replay-tape".to_string(), file.display().to_string(), "--watchdog".into(), watchdog_s.to_string()];
    match spawn_worker(bin, &args, 4 * 1024 * 1024) {
        ChildEnd::Ok(j) => ReplayOutcome {
            signature: j.get("signature").and_then(J::as_str).map(str::to_string),
            detail: j.get("detail").and_then(J::as_str).unwrap_or("").to_string(),
            event_hash: j.get("event_hash").and_then(J::as_str).unwrap_or("").to_string(),
            events: j.get("events").and_then(J::as_arr).map(|a| a.iter().filter_map(|x| x.as_str().map(str::to_string)).collect()).unwrap_or_default(),
            scenario: j.get("scenario").and_then(J::as_arr).map(|a| a.iter().filter_map(|x| x.as_str().map(str::to_string)).collect()).unwrap_or_default(),
            abnormal: None,
        },
        ChildEnd::Abnormal(class, _, tail) => ReplayOutcome { signature: None, detail: tail, event_hash: String::new(), events: vec![], scenario: vec![], abnormal: Some(class) },
    }
}

/// C19 replay: the run is executed by both builds and the outcome logs are compared
fn replay_c19(bins: &Bins, file: &Path, tmp: &Path) -> ReplayOutcome {
    let text = std::fs::read_to_string(file).unwrap_or_default();
    let j = J::parse(&text).unwrap_or(J::Null);
    let seed = j.get("seed").and_then(J::as_u64).unwrap_or(1);
    let run = j.get("run").and_then(J::as_u64).unwrap_or(0);
    let tier = j.get("tier").and_then(J::as_str).unwrap_or("quick").to_string();
    let lifted: Vec<String> = j.get("lift").and_then(J::as_arr).map(|a| a.iter().filter_map(|x| x.as_str().map(str::to_string)).collect()).unwrap_or_default();
    let _ = std::fs::create_dir_all(tmp);
    let mut outs = Vec::new();
    let mut hashes = Vec::new();
    for b in ["checked", "dde"] {
        let of = tmp.join(format!("replay-{b}-{}.txt", std::process::id()));
        let mut args = vec!["worker".to_string(), "--prop".into(), "C19".into(), "--tier".into(), tier.clone(), "--seed".into(), seed.to_string(), "--from".into(), run.to_string(), "--to".into(), (run + 1).to_string(), "--outcomes-out".into(), of.display().to_string()];
        if !lifted.is_empty() {
            args.push("--lift".into());
            args.push(lifted.join(","));
        }
        match spawn_worker(bins.get(b), &args, 4 * 1024 * 1024) {
            ChildEnd::Ok(j) => hashes.push(j.get("chunk_hash").and_then(J::as_str).unwrap_or("").to_string()),
            ChildEnd::Abnormal(c, _, t) => {
                return ReplayOutcome { signature: None, detail: t, event_hash: String::new(), events: vec![], scenario: vec![], abnormal: Some(c) };
            }
        }
        outs.push(std::fs::read_to_string(&of).unwrap_or_default());
        let _ = std::fs::remove_file(&of);
    }
    let mut events = Vec::new();
    let mut sig = None;
    let mut detail = String::new();
    let (a, b) = (&outs[0], &outs[1]);
    let mut ia = a.lines();
    let mut ib = b.lines();
    loop {
        match (ia.next(), ib.next()) {
            (None, None) => break,
            (la, lb) if la == lb => events.push(format!("both builds: {}", la.unwrap_or(""))),
            (la, lb) => {
                let class = |l: Option<&str>| -> String {
                    match l {
                        None => "missing".to_string(),
                        Some(l) => {
                            if l.contains(" Ok(") {
                                "Ok".into()
                            } else if l.contains(" Panic(") {
                                "Panic".into()
                            } else {
                                l.split("Err(\"").nth(1).and_then(|r| r.split(|c| c == '#' || c == '"').next()).unwrap_or("Err").to_string()
                            }
                        }
                    }
                };
                events.push(format!("default build: {:?}", la));
                events.push(format!("+feature build: {:?}", lb));
                sig = Some(format!("C19/outcome-differs/default={}/feature={}", class(la), class(lb)));
                detail = format!("default build: {:?}; +descriptive-deserialize-errors: {:?}", la, lb);
                break;
            }
        }
    }
    if sig.is_none() && hashes.len() == 2 && hashes[0] != hashes[1] {
        sig = Some("C19/event-log-hash-differs".into());
        detail = format!("{} vs {}", hashes[0], hashes[1]);
    }
    ReplayOutcome { signature: sig, detail, event_hash: hashes.join("/"), events, scenario: vec![format!("seed {seed} run {run}: scenario regenerated from the seed in both builds")], abnormal: None }
}

fn replay_signature(prop: &str, o: &ReplayOutcome) -> Option<String> {
    match (&o.signature, &o.abnormal) {
        (Some(s), _) => Some(s.clone()),
        (None, Some(c)) => Some(format!("{prop}/process-{c}")),
        _ => None,
    }
}

fn write_replay_file(path: &Path, prop: &str, tier: Tier, build: &str, seed: u64, run: u64, signature: &str, detail: &str, lanes: &[Vec<u64>], lifted: &[String], o: Option<&ReplayOutcome>, extra: &[(&str, J)]) {
    let mut j = J::obj()
        .with("property", J::str(prop))
        .with("tier", J::str(tier.name()))
        .with("profile", J::str(build))
        .with("seed", J::u(seed))
        .with("run", J::u(run))
        .with("signature", J::str(signature))
        .with("detail", J::str(detail))
        .with("lanes", runner::lanes_json(lanes))
        .with("lift", J::arr(lifted.iter().map(|s| J::str(s.clone()))));
    if let Some(o) = o {
        j.set("event_hash", J::str(o.event_hash.clone()));
        j.set("events", J::arr(o.events.iter().map(|s| J::str(s.clone()))));
        j.set("scenario", J::arr(o.scenario.iter().map(|s| J::str(s.clone()))));
    }
    for (k, v) in extra {
        j.set(k, v.clone());
    }
    if let Some(d) = path.parent() {
        let _ = std::fs::create_dir_all(d);
    }
    std::fs::write(path, j.to_pretty()).expect("write replay file");
}

/// Minimisation of a crash-type violation (the worker process died: abort, stack overflow, hang).
/// The tape is the raw PRNG output prefix of the run (no execution needed); every candidate is
/// executed in a fresh child process and accepted iff the child dies in the same class.
#[allow(clippy::too_many_arguments)]
fn minimize_isolated(bin: &Path, prop: &str, tier: Tier, build: &str, seed: u64, run: u64, signature: &str, lifted: &[String], tmp: &Path, budget: usize) -> Option<(Vec<Vec<u64>>, usize, usize)> {
    let raw = crate::choices::Choices::raw_tape_from_seed(seed, prop, run, 4096);
    let cand_path = tmp.join(format!("cand-{}.json", std::process::id()));
    let watchdog = if signature.ends_with("process-hang") { 3 } else { 20 };
    let mut spent_total = 0usize;
    let mut test = |cand: &Vec<Vec<u64>>| -> bool {
        write_replay_file(&cand_path, prop, tier, build, seed, run, signature, "", cand, lifted, None, &[]);
        let o = replay_file_in_child(bin, &cand_path, watchdog);
        replay_signature(prop, &o).as_deref() == Some(signature)
    };
    // the raw tape must reproduce the crash at all (it does unless the run draws > 4096 values per lane)
    spent_total += 1;
    if !test(&raw) {
        let _ = std::fs::remove_file(&cand_path);
        return None;
    }
    let before: usize = raw.iter().map(Vec::len).sum();
    // pre-pass: shortest reproducing prefix per lane (binary search; the unused tail is most of it)
    let mut best = raw;
    for lane in 0..best.len() {
        if spent_total >= budget {
            break;
        }
        let mut empty = best.clone();
        empty[lane].clear();
        spent_total += 1;
        if test(&empty) {
            best = empty;
            continue;
        }
        let (mut lo, mut hi) = (0usize, best[lane].len()); // prefix of length hi reproduces, lo does not
        while hi - lo > 1 && spent_total < budget {
            let mid = lo + (hi - lo) / 2;
            let mut c = best.clone();
            c[lane].truncate(mid);
            spent_total += 1;
            if test(&c) {
                hi = mid;
            } else {
                lo = mid;
            }
        }
        best[lane].truncate(hi);
    }
    let (min, spent) = runner::minimize_with(best, budget.saturating_sub(spent_total), &mut test);
    let _ = std::fs::remove_file(&cand_path);
    Some((min, before, spent_total + spent))
}

pub fn main(args: &[String]) -> i32 {
    let cmd = args[1].as_str();
    let root = PathBuf::from(arg_val(args, "--root").unwrap_or_else(|| "/verif".into()));
    let mut bins = Bins { map: BTreeMap::new() };
    let me = std::env::current_exe().unwrap();
    bins.map.insert(crate::engine::profile_name().to_string(), me.clone());
    if let Some(b) = arg_val(args, "--bins") {
        for kv in b.split(',') {
            if let Some((k, v)) = kv.split_once('=') {
                bins.map.insert(k.to_string(), PathBuf::from(v));
            }
        }
    }
    match cmd {
        "check" => check(args, &root, &bins),
        "replay" => replay_cmd(args, &root, &bins),
        "selftest" => selftest(args, &root, &bins),
        _ => 2,
    }
}

fn replay_cmd(args: &[String], _root: &Path, bins: &Bins) -> i32 {
    let Some(file) = args.get(2) else {
        eprintln!("usage: sim replay <file>");
        return 2;
    };
    let text = match std::fs::read_to_string(file) {
        Ok(t) => t,
        Err(e) => {
            eprintln!("HARNESS: cannot read {file}: {e}");
            return 2;
        }
    };
    let j = match J::parse(&text) {
        Ok(j) => j,
        Err(e) => {
            eprintln!("HARNESS: cannot parse {file}: {e}");
            return 2;
        }
    };
    let prop = j.get("property").and_then(J::as_str).unwrap_or("?").to_string();
    let build = j.get("profile").and_then(J::as_str).unwrap_or("checked").to_string();
    let want_sig = j.get("signature").and_then(J::as_str).unwrap_or("").to_string();
    let want_hash = j.get("event_hash").and_then(J::as_str).unwrap_or("").to_string();
    let o = if prop == "C19" { replay_c19(bins, Path::new(file), &_root.join("sim/target/tmp")) } else { replay_file_in_child(bins.get(&build), Path::new(file), 60) };
    let got = replay_signature(&prop, &o);
    println!("replay of {file} (build {build})");
    for s in &o.scenario {
        println!("  scenario: {s}");
    }
    for e in &o.events {
        println!("  event: {e}");
    }
    match got {
        Some(sig) => {
            println!("  outcome: violation {sig}");
            println!("  detail: {}", o.detail);
            if sig == want_sig && (want_hash.is_empty() || o.event_hash == want_hash || o.abnormal.is_some()) {
                println!("VIOLATION property={prop} replay={file}");
                1
            } else if sig == want_sig {
                println!("  same signature but a different event log hash ({} vs recorded {}): the code under test changed", o.event_hash, want_hash);
                println!("VIOLATION property={prop} replay={file}");
                1
            } else {
                println!("  a violation, but with another signature than recorded ({want_sig})");
                println!("VIOLATION property={prop} replay={file}");
                1
            }
        }
        None => {
            println!("  outcome: no violation (recorded: {want_sig})");
            0
        }
    }
}

fn check(args: &[String], root: &Path, bins: &Bins) -> i32 {
    let t0 = Instant::now();
    let prop = args.get(2).cloned().unwrap_or_default();
    let tier = Tier::parse(args.get(3).map(String::as_str).unwrap_or("quick")).unwrap_or(Tier::Quick);
    let Some(plan) = plan(&prop) else {
        eprintln!("HARNESS: no check for property {prop}");
        return 2;
    };
    let seed: u64 = arg_val(args, "--seed").and_then(|s| s.parse().ok()).unwrap_or(1);
    let runs: u64 = arg_val(args, "--runs").and_then(|s| s.parse().ok()).unwrap_or(match tier {
        Tier::Quick => plan.quick_runs,
        Tier::Thorough => plan.thorough_runs,
    });
    let workers: usize = arg_val(args, "--workers").and_then(|s| s.parse().ok()).unwrap_or_else(|| std::thread::available_parallelism().map(|n| n.get()).unwrap_or(8));
    let chunk: u64 = arg_val(args, "--chunk").and_then(|s| s.parse().ok()).unwrap_or(plan.chunk);
    let tmp = root.join("sim/target/tmp").join(format!("{}-{}", prop, std::process::id()));
    let _ = std::fs::create_dir_all(&tmp);

    let total_runs: f64 = plan.builds.iter().map(|b| b.1 * runs as f64).sum();
    let hash_sample: u64 = if total_runs > 8_000_000.0 { 16 } else { 1 };
    HASH_SAMPLE.store(hash_sample, std::sync::atomic::Ordering::Relaxed);
    println!("check {prop} {} seed={seed} runs={runs} workers={workers} chunk={chunk}", tier.name());

    // known findings
    let findings = load_findings(root);
    let mine: Vec<&Finding> = findings.iter().filter(|f| f.property == prop).collect();
    let lifted: Vec<String> = {
        // a domain predicate is in force only while its finding is listed as open; it is lifted (the
        // domain is explored again) when the entry is marked fixed or removed
        let mut l: Vec<String> = ALL_DOMAINS.iter().filter(|d| !findings.iter().any(|f| f.status == "open" && f.id == **d)).map(|d| d.to_string()).collect();
        if let Some(extra) = arg_val(args, "--lift") {
            l.extend(extra.split(',').map(str::to_string));
        }
        l.sort();
        l.dedup();
        l
    };
    let mut known_reproduced: Vec<J> = Vec::new();
    let mut known_lines = 0;
    let mut stale_pins = 0;
    for f in &mine {
        if f.status != "open" {
            continue;
        }
        let Some(rp) = &f.replay else { continue };
        let path = root.join(rp);
        let text = std::fs::read_to_string(&path).unwrap_or_default();
        let build = J::parse(&text).ok().and_then(|j| j.get("profile").and_then(J::as_str).map(str::to_string)).unwrap_or_else(|| "checked".into());
        // a pinned hang only needs to be recognised as one: short watchdog
        let o = if prop == "C19" { replay_c19(bins, &path, &tmp) } else { replay_file_in_child(bins.get(&build), &path, plan.watchdog_s.min(4)) };
        let sig = replay_signature(&prop, &o);
        let still = matches!(&sig, Some(s) if f.matches(s));
        if !f.must_contain_event.is_empty() && o.abnormal.is_none() && !o.events.iter().any(|e| e.contains(&f.must_contain_event)) {
            eprintln!("HARNESS-ERROR: pinned replay {} of finding {} is stale: no event contains {:?} (the zoo or the generators changed; re-pin it)", rp, f.id, f.must_contain_event);
            stale_pins += 1;
        }
        known_reproduced.push(J::obj().with("id", J::str(f.id.clone())).with("replay", J::str(rp.clone())).with("still_fails", J::Bool(still)).with("signature", sig.clone().map(J::str).unwrap_or(J::Null)));
        if still {
            println!("KNOWN-FINDING: property={prop} {} [{}] (pinned replay {})", f.what, f.id, rp);
            known_lines += 1;
        } else {
            println!("note: pinned finding {} no longer fails with its signature (got {:?}); nothing is suppressed for it in this run's replay", f.id, sig);
        }
    }

    // exploration jobs
    let mut jobs = Vec::new();
    for (build, frac) in plan.builds {
        let n = ((runs as f64) * frac).ceil() as u64;
        let mut from = 0;
        while from < n {
            let to = (from + chunk).min(n);
            jobs.push(Job { build: build.to_string(), from, to });
            from = to;
        }
    }
    let njobs = jobs.len();
    WANT_OUTCOMES.store(prop == "C19", std::sync::atomic::Ordering::Relaxed);
    let (mut m, distinct, shapes) = run_jobs(jobs, bins, &prop, tier, seed, &lifted, workers, &tmp, plan.watchdog_s, true);

    if prop == "C19" {
        compare_outcomes(&mut m, &tmp, runs, chunk);
    }
    WANT_OUTCOMES.store(false, std::sync::atomic::Ordering::Relaxed);

    // determinism resample: re-execute ~1% of the chunks (at least 2) and compare chunk hashes
    let mut resample_n = 0;
    let mut resample_mismatch = 0;
    {
        let keys: Vec<(String, u64)> = m.chunk_hashes.keys().cloned().collect();
        let want = (njobs / 100).max(2).min(keys.len());
        let mut picks = Vec::new();
        for i in 0..want {
            let k = &keys[(i * 7919 + 3) % keys.len()];
            if !picks.contains(k) {
                picks.push(k.clone());
            }
        }
        let rejobs: Vec<Job> = picks.iter().map(|(b, from)| Job { build: b.clone(), from: *from, to: (*from + chunk).min(((runs as f64) * plan.builds.iter().find(|x| x.0 == b).map(|x| x.1).unwrap_or(1.0)).ceil() as u64) }).collect();
        let (m2, _, _) = run_jobs(rejobs, bins, &prop, tier, seed, &lifted, workers, &tmp, plan.watchdog_s, false);
        for (k, h) in &m2.chunk_hashes {
            resample_n += 1;
            if m.chunk_hashes.get(k) != Some(h) {
                resample_mismatch += 1;
                m.harness_errors.push(format!("determinism: chunk {:?} hashed {} then {}", k, m.chunk_hashes.get(k).cloned().unwrap_or_default(), h));
            }
        }
    }

    // classify violations
    let mut by_sig: BTreeMap<String, FoundViolation> = BTreeMap::new();
    for v in &m.violations {
        let key = v.signature.clone();
        match by_sig.get(&key) {
            Some(old) if (old.run, &old.build) <= (v.run, &v.build) => {}
            _ => {
                by_sig.insert(key, v.clone());
            }
        }
    }
    let mut new_violations: Vec<FoundViolation> = Vec::new();
    let mut known_hits: BTreeMap<String, u64> = BTreeMap::new();
    for (sig, v) in &by_sig {
        if sig.starts_with("HARNESS/") {
            m.harness_errors.push(format!("{sig}: {} (run {} build {})", v.detail, v.run, v.build));
            continue;
        }
        if let Some(f) = mine.iter().find(|f| f.status == "open" && !f.replay_only && f.matches(sig)) {
            *known_hits.entry(f.id.clone()).or_insert(0) += m.counters.get(&format!("violation.{sig}")).max(1);
            continue;
        }
        new_violations.push(v.clone());
    }

    // minimise + re-replay new violations
    let mut exit = 0;
    let mut reported: Vec<J> = Vec::new();
    let replays_dir = root.join("replays");
    for v in new_violations.iter().take(8) {
        let bin = bins.get(&v.build);
        let base = format!("{}-{}-{}", prop, slug(&v.signature), seed);
        let full_path = replays_dir.join(format!("{base}.full.json"));
        let min_path = replays_dir.join(format!("{base}.json"));
        let mut lanes = v.lanes.clone().unwrap_or_default();
        let mut from_seed = v.lanes.is_none();
        let mut isolated_stats = None;
        if from_seed && prop != "C19" {
            // crash-type violation: raw tape from the seed, shrunk with one child process per candidate
            let budget = if v.signature.ends_with("process-hang") { 60 } else { 160 };
            if let Some((min, before, spent)) = minimize_isolated(bin, &prop, tier, &v.build, seed, v.run, &v.signature, &lifted, &tmp, budget) {
                isolated_stats = Some((before, min.iter().map(Vec::len).sum::<usize>(), spent));
                lanes = min;
                from_seed = false;
            }
        }
        let extra_seed: Vec<(&str, J)> = if from_seed { vec![("from_seed", J::Bool(true))] } else { vec![] };
        write_replay_file(&full_path, &prop, tier, &v.build, seed, v.run, &v.signature, &v.detail, &lanes, &lifted, None, &extra_seed);
        // minimise in a child (in-process shrinking there; crash-type violations are not shrunk)
        let mut final_path = full_path.clone();
        if !from_seed && isolated_stats.is_none() {
            let margs = vec!["minimize".to_string(), full_path.display().to_string(), min_path.display().to_string()];
            if let ChildEnd::Ok(_) = spawn_worker(bin, &margs, 4 * 1024 * 1024) {
                if min_path.exists() {
                    final_path = min_path.clone();
                }
            }
        }
        // replay twice in fresh processes: must reproduce signature and event-log hash
        let (o1, o2) = if prop == "C19" {
            (replay_c19(bins, &final_path, &tmp), replay_c19(bins, &final_path, &tmp))
        } else {
            (replay_file_in_child(bin, &final_path, plan.watchdog_s), replay_file_in_child(bin, &final_path, plan.watchdog_s))
        };
        let s1 = replay_signature(&prop, &o1);
        let s2 = replay_signature(&prop, &o2);
        if s1.as_deref() != Some(v.signature.as_str()) || s1 != s2 || o1.event_hash != o2.event_hash {
            m.harness_errors.push(format!("violation {} (run {}, build {}) does not replay exactly: {:?}/{} vs {:?}/{}", v.signature, v.run, v.build, s1, o1.event_hash, s2, o2.event_hash));
            continue;
        }
        // re-write with event log and scenario
        let text = std::fs::read_to_string(&final_path).unwrap_or_default();
        let jl = J::parse(&text).ok();
        let lanes_final = jl.as_ref().and_then(|j| j.get("lanes")).map(runner::lanes_from_json).unwrap_or(lanes.clone());
        let mut extra: Vec<(&str, J)> = vec![("unminimised", J::str(full_path.display().to_string()))];
        if from_seed {
            extra.push(("from_seed", J::Bool(true)));
        }
        if let Some((before, after, spent)) = isolated_stats {
            extra.push(("minimisation", J::obj().with("mode", J::str("out-of-process: one child per candidate; tape = raw PRNG outputs of the run")).with("tape_entries_before", J::u(before as u64)).with("tape_entries_after", J::u(after as u64)).with("candidates_executed", J::u(spent as u64))));
        }
        write_replay_file(&final_path, &prop, tier, &v.build, seed, v.run, &v.signature, if o1.detail.is_empty() { &v.detail } else { &o1.detail }, &lanes_final, &lifted, Some(&o1), &extra);
        println!("violation: {} (build {}, run {}): {}", v.signature, v.build, v.run, first_line(&v.detail));
        println!("VIOLATION property={} replay={}", prop, final_path.display());
        reported.push(J::obj().with("signature", J::str(v.signature.clone())).with("replay", J::str(final_path.display().to_string())).with("build", J::str(v.build.clone())).with("run", J::u(v.run)));
        exit = 1;
    }
    if new_violations.len() > 8 {
        println!("note: {} further distinct violation signatures not individually minimised:", new_violations.len() - 8);
        for v in new_violations.iter().skip(8) {
            println!("  further: {} (build {}, run {}): {}", v.signature, v.build, v.run, first_line(&v.detail));
        }
    }
    if stale_pins > 0 && exit == 0 {
        exit = 2;
    }
    if !m.harness_errors.is_empty() {
        for e in &m.harness_errors {
            eprintln!("HARNESS-ERROR: {e}");
        }
        if exit == 0 {
            exit = 2;
        }
    }

    // evidence
    let wall = t0.elapsed().as_secs_f64();
    let mut faults = BTreeMap::new();
    let mut probes = BTreeMap::new();
    let mut diags = BTreeMap::new();
    let mut other = BTreeMap::new();
    for (k, v) in &m.counters.0 {
        let t = if let Some(r) = k.strip_prefix("fault.") {
            faults.insert(r.to_string(), J::u(*v));
            continue;
        } else if let Some(r) = k.strip_prefix("probe.") {
            probes.insert(r.to_string(), J::u(*v));
            continue;
        } else if let Some(r) = k.strip_prefix("diag.") {
            diags.insert(r.to_string(), J::u(*v));
            continue;
        } else {
            k.clone()
        };
        other.insert(t, J::u(*v));
    }
    let zero_probes: Vec<J> = expected_probes(&prop).iter().filter(|p| m.counters.get(&format!("probe.{p}")) == 0).map(|p| J::str(*p)).collect();
    for p in &zero_probes {
        println!("warning: reach probe stuck at zero: {}", p.as_str().unwrap_or(""));
    }
    let coverage = J::obj()
        .with("evaluations", J::u(m.runs))
        .with("distinct_nontrivial", J::u(distinct.len() as u64))
        .with("rule", J::str(if hash_sample == 1 { plan.rule.to_string() } else { format!("{} NOTE: with more than 8M runs only event-log hashes with h % {hash_sample} == 0 are collected, so distinct_nontrivial is a measured LOWER BOUND (the distinct hashes in that residue class); distinct_estimate multiplies it by {hash_sample}.", plan.rule) }))
        .with("distinct_estimate", J::u(distinct.len() as u64 * hash_sample))
        .with("samples", J::Arr(if m.samples.is_empty() { vec![J::str("(no sample recorded)")] } else { m.samples.clone() }))
        .with("nontrivial_runs", J::u(m.nontrivial))
        .with("distinct_shapes", J::u(shapes.len() as u64))
        .with("sim_steps", J::u(m.steps))
        .with("choices_drawn", J::u(m.draws))
        .with("simulated_time", J::str("logical steps only: asn1rs reads no clock and sets no deadline"))
        .with("runs_per_hour", J::Num(if wall > 0.0 { (m.runs as f64) / wall * 3600.0 } else { 0.0 }))
        .with("seeds", J::obj().with("base_seed", J::u(seed)).with("run_indices", J::str(format!("0..{} per build; every run's PRNG is seeded from hash(seed, property, run index, lane)", runs))))
        .with("builds", J::arr(plan.builds.iter().map(|(b, f)| J::obj().with("name", J::str(*b)).with("fraction_of_runs", J::Num(*f)))))
        .with("faults_fired", J::Obj(faults))
        .with("reach_probes", J::Obj(probes))
        .with("reach_probes_at_zero", J::Arr(zero_probes))
        .with("diagnostics_not_violations", J::Obj(diags))
        .with("counters", J::Obj(other))
        .with("components", J::obj().with("real", J::arr(plan.real.iter().map(|s| J::str(*s)))).with("stub", J::arr(plan.stub.iter().map(|s| J::str(*s)))))
        .with("determinism_resample", J::obj().with("chunks", J::u(resample_n)).with("mismatches", J::u(resample_mismatch)))
        .with("known_findings_replayed", J::Arr(known_reproduced))
        .with("known_findings_hit_in_exploration", J::Obj(known_hits.iter().map(|(k, v)| (k.clone(), J::u(*v))).collect()))
        .with("lifted_domain_predicates", J::arr(lifted.iter().map(|s| J::str(s.clone()))))
        .with("violations_reported", J::Arr(reported))
        .with("exhaustive", J::Bool(false));
    let ev = J::obj()
        .with("property_id", J::str(prop.clone()))
        .with("tier", J::str(tier.name()))
        .with("seed", J::u(seed))
        .with("level", J::str(plan.level))
        .with("coverage", coverage)
        .with("assumptions", J::arr(plan.assumptions.iter().map(|s| J::str(*s))))
        .with("wall_s", J::Num((wall * 100.0).round() / 100.0))
        .with("violations", J::u(new_violations.len() as u64));
    let evdir = root.join("evidence");
    let _ = std::fs::create_dir_all(&evdir);
    if let Err(e) = std::fs::write(evdir.join(format!("{prop}.json")), ev.to_pretty()) {
        eprintln!("HARNESS-ERROR: cannot write evidence: {e}");
        if exit == 0 {
            exit = 2;
        }
    }
    let _ = std::fs::remove_dir_all(&tmp);
    println!(
        "{prop} {}: runs={} nontrivial={} distinct={} shapes={} wall={:.1}s known-finding-lines={} new-violations={} exit={}",
        tier.name(),
        m.runs,
        m.nontrivial,
        distinct.len(),
        shapes.len(),
        wall,
        known_lines,
        new_violations.len(),
        exit
    );
    exit
}

fn first_line(s: &str) -> String {
    let l = s.lines().next().unwrap_or("");
    if l.len() > 300 {
        format!("{}…", &l[..l.char_indices().take(300).last().map(|x| x.0).unwrap_or(0)])
    } else {
        l.to_string()
    }
}

fn expected_probes(prop: &str) -> &'static [&'static str] {
    match prop {
        "C01" => &["back_to_back_stream>=2", "fragmented_length_seen"],
        "C04" => &["read_failed_then_accessors_called", "truncated_delivery", "EINTR_retried"],
        "C05" => &["unknown_addition_present", "unknown_alternative_or_value_selected", "message_longer_than_127_octets"],
        "C12" => &["reference_local", "reference_import_by_name", "reference_import_by_name_and_oid", "reference_import_by_oid_only", "reference_import_chain_over_two_modules", "decoy_same_name_other_oid", "decoy_same_name_no_oid", "decoy_alias_name_no_oid"],
        "C14" => &["multi_module_scope", "fault_point_enumeration_modules"],
        "C17" => &["exact_fit_slice", "EINTR_retried", "roundtrip_equal_only_up_to_default_equivalence"],
        "C19" => &["dde_error_carries_description", "fault_free_delivery_compared"],
        "C20" => &["EINTR_retried_on_write", "EINTR_retried_on_read", "short_reads_inside_item", "items_survived_writer_crash", "torn_item_seen", "boolean_any_nonzero_octet_checked", "fault_point_enumeration_streams"],
        "C11" => &["bulk_copy_aligned_branch", "bulk_copy_unaligned_branch", "exact_fit_destination", "read_bit_at_exact_end"],
        _ => &[],
    }
}

fn selftest(args: &[String], root: &Path, bins: &Bins) -> i32 {
    // determinism proof: N run indices per property, executed at worker counts 1, 4 and 16 in different
    // processes; per-chunk event-log hashes must agree
    let props: Vec<String> = arg_val(args, "--props").map(|s| s.split(',').map(str::to_string).collect()).unwrap_or_else(|| vec!["C01".into()]);
    let n: u64 = arg_val(args, "--runs").and_then(|s| s.parse().ok()).unwrap_or(2000);
    let seed: u64 = arg_val(args, "--seed").and_then(|s| s.parse().ok()).unwrap_or(1);
    let tmp = root.join("sim/target/tmp").join(format!("selftest-{}", std::process::id()));
    let _ = std::fs::create_dir_all(&tmp);
    let mut bad = 0;
    for prop in &props {
        let Some(plan) = plan(prop) else { continue };
        let mut reference: Option<BTreeMap<(String, u64), String>> = None;
        for workers in [1usize, 4, 16] {
            let mut jobs = Vec::new();
            for (build, _) in plan.builds {
                let mut from = 0;
                while from < n {
                    jobs.push(Job { build: build.to_string(), from, to: (from + 250).min(n) });
                    from += 250;
                }
            }
            let (m, _, _) = run_jobs(jobs, bins, prop, Tier::Quick, seed, &[], workers, &tmp, plan.watchdog_s, false);
            match &reference {
                None => reference = Some(m.chunk_hashes.clone()),
                Some(r) => {
                    if *r != m.chunk_hashes {
                        bad += 1;
                        println!("selftest {prop}: MISMATCH at workers={workers}");
                    }
                }
            }
        }
        println!("selftest {prop}: {} chunks x 3 worker counts compared", reference.map(|r| r.len()).unwrap_or(0));
    }
    let _ = std::fs::remove_dir_all(&tmp);
    let _: BTreeSet<u8> = BTreeSet::new();
    if bad > 0 {
        2
    } else {
        0
    }
}
