//! C17: protobuf round trip, two storage back ends (DESIGN 5.C17).

use crate::choices::Lane;
use crate::engine::*;
use crate::gen::GenCfg;
use crate::guard::guard;
use crate::io::*;
use crate::tree::Tree;
use crate::zoo::*;
use asn1rs::prelude::*;
use asn1rs::protocol::protobuf::{ProtoRead, ProtoWrite};

pub fn run(ctx: &mut RunCtx<'_>) -> Option<Violation> {
    match ctx.ch.draw(0, 10) {
        0..=6 => run_roundtrip(ctx),
        _ => run_primitives(ctx),
    }
}

// ------------------------------------------------------------------------------------------------
// proto3 default equivalence on value trees: an absent OPTIONAL and a present zero-ish value are
// indistinguishable (the structural reading of T::default() used by ProtobufEq for Option<T>)

fn zeroish(t: &Tree) -> bool {
    match t {
        Tree::Num { v, .. } => *v == 0,
        Tree::Bool(b) => !*b,
        Tree::Str { v, .. } => v.is_empty(),
        Tree::Octets(v) => v.is_empty(),
        Tree::Bits(_, n) => *n == 0,
        Tree::List { items, .. } => items.is_empty(),
        Tree::Enum { idx, .. } => *idx == 0,
        Tree::Null => true,
        Tree::Opt(None) => true,
        Tree::Opt(Some(x)) => zeroish(x),
        Tree::Def { value, .. } => zeroish(value),
        Tree::Seq { fields, .. } => fields.iter().all(zeroish),
        Tree::Choice { idx, content, .. } => *idx == 0 && zeroish(content),
    }
}

pub fn proto_norm(t: &Tree) -> Tree {
    match t {
        Tree::Opt(None) => Tree::Opt(None),
        Tree::Opt(Some(x)) => {
            if zeroish(x) {
                Tree::Opt(None)
            } else {
                Tree::Opt(Some(Box::new(proto_norm(x))))
            }
        }
        Tree::Def { value, .. } => Tree::Def { is_default: false, value: Box::new(proto_norm(value)) },
        Tree::Seq { name, set, ext_after, fields } => Tree::Seq { name, set: *set, ext_after: *ext_after, fields: fields.iter().map(proto_norm).collect() },
        Tree::List { set, items } => Tree::List { set: *set, items: items.iter().map(proto_norm).collect() },
        Tree::Choice { name, idx, std, count, ext, content } => Tree::Choice { name, idx: *idx, std: *std, count: *count, ext: *ext, content: Box::new(proto_norm(content)) },
        other => other.clone(),
    }
}

/// structural features that put a type/value into the domain of a known protobuf finding
fn tree_features(t: &Tree) -> (bool, bool, bool, bool) {
    // (list directly inside list, list directly inside choice, list of NULL, NULL as choice content)
    let mut ll = false;
    let mut lc = false;
    let mut ln = false;
    let mut cn = false;
    t.walk(&mut |n| match n {
        Tree::List { items, .. } => {
            if items.iter().any(|i| matches!(i, Tree::List { .. })) {
                ll = true;
            }
            if items.iter().any(|i| matches!(i, Tree::Null)) {
                ln = true;
            }
        }
        Tree::Choice { content, .. } => {
            if matches!(**content, Tree::List { .. }) {
                lc = true;
            }
            if matches!(**content, Tree::Null) {
                cn = true;
            }
        }
        _ => {}
    });
    (ll, lc, ln, cn)
}

fn run_roundtrip(ctx: &mut RunCtx<'_>) -> Option<Violation> {
    let z = zoo();
    let lifted: Vec<String> = ctx.lifted.to_vec();
    let is_lifted = move |f: &str| lifted.iter().any(|l| l == f || l == "all");
    let types = z.with_flag(F_PROTO);
    let (cfg, cap_mode) = {
        let mut l0 = Lane::new(ctx.ch, 0);
        let size_class = match l0.draw(10) {
            0..=5 => 0,
            6..=8 => 1,
            _ => 2,
        };
        let cfg = GenCfg { valid: true, size_class, cap_unfragmented: 20_000, cap_fragmented: 70_000, budget: if size_class == 0 { 24 } else { 64 }, additions_absent: false };
        (cfg, l0.draw(8))
    };
    let ty = types[ctx.ch.draw(1, types.len() as u64) as usize];
    let ops = &z.types[ty];
    let (val, _) = (ops.gen)(Lane::new(ctx.ch, 1), cfg);
    let tree = (ops.tree)(&val);
    let (ll, lc, ln, cn) = tree_features(&tree);
    if cn && !is_lifted("D17") {
        ctx.counters.inc("known.D17.redirected_draws");
        return None;
    }
    if ll && !is_lifted("D11") {
        ctx.counters.inc("known.D11.redirected_draws");
        return None;
    }
    if lc && !is_lifted("D12") {
        ctx.counters.inc("known.D12.redirected_draws");
        return None;
    }
    if ln && !is_lifted("D15") {
        ctx.counters.inc("known.D15.redirected_draws");
        return None;
    }
    let rendered = if ctx.recording() { tree.render() } else { String::new() };
    let feature = if ll {
        "list-in-list"
    } else if lc {
        "list-in-choice"
    } else if ln {
        "null-in-list"
    } else if cn {
        "null-in-choice"
    } else {
        "plain"
    };
    let tname = if feature == "plain" { ops.name } else { "*" };

    // back end 1: growable
    let mut w = ProtobufWriter::default();
    let r = guard(|| (ops.proto_write)(&val, &mut w));
    let vec_bytes = match r {
        Ok(Ok(())) => {
            let a = w.as_bytes().to_vec();
            let n = w.len_written();
            let b = w.into_bytes_vec();
            if a != b || n != b.len() {
                return Some(Violation { signature: "C17/vec-backend-accessors-disagree".into(), detail: format!("as_bytes {} bytes, len_written {}, into_bytes_vec {} bytes", a.len(), n, b.len()) });
            }
            b
        }
        Ok(Err(e)) => {
            ctx.counters.inc("diag.C17.vec_writer_refused_valid_value");
            ctx.log.ev("W", "write-vec-err", 0, || format!("{} {rendered} -> {}", ops.name, e));
            return None;
        }
        Err(pi) => {
            ctx.counters.inc(&format!("diag.C17.vec_writer_panicked@{}", pi.sig()));
            ctx.log.ev("W", "write-vec-panic", 0, || format!("{} {rendered} -> {}", ops.name, pi.sig()));
            return None;
        }
    };
    ctx.log.ev("W", "write-vec", crate::choices::fnv1a(&vec_bytes), || format!("{} {rendered} = {}", ops.name, hex(&vec_bytes)));

    // back end 2: fixed slice with a drawn capacity (IO-FULL)
    let need = vec_bytes.len();
    let cap = match cap_mode {
        0 | 1 => need,                                                     // exact fit
        2 => need + 1 + ctx.ch.draw(0, 64) as usize,                       // generous
        3 => need.saturating_sub(1),                                       // one byte short
        4 => ctx.ch.draw(0, need as u64 + 1) as usize,                     // random smaller
        5 => 0,
        _ => need + ctx.ch.draw(0, 3) as usize,
    };
    let mut buf = vec![0xAAu8; cap];
    let r = guard(|| {
        let mut w = ProtobufWriter::from(&mut buf[..]);
        let r = (ops.proto_write)(&val, &mut w);
        let a = w.as_bytes().to_vec();
        let n = w.len_written();
        let b = w.into_bytes_vec();
        (r.map_err(|e| e.to_string().lines().next().unwrap_or("").to_string()), a, n, b)
    });
    let fits = cap >= need;
    if fits && cap == need && need > 0 {
        ctx.counters.inc("probe.exact_fit_slice");
    }
    if !fits {
        ctx.counters.inc("fault.IO-FULL(c)");
    }
    match r {
        Err(pi) => {
            if fits {
                return Some(Violation {
                    signature: format!("C17/slice-backend-panicked-though-it-fits/{}", pi.sig()),
                    detail: format!("ProtobufWriter::from(&mut [u8; {cap}]) panicked writing {} ({} bytes needed): {}", ops.name, need, pi.message),
                });
            }
            ctx.counters.inc(&format!("diag.C17.slice_writer_panicked_when_full@{}", pi.sig()));
            ctx.log.ev("W", "write-slice-panic", cap as u64, || format!("cap={cap}"));
        }
        Ok((res, a, n, b)) => {
            ctx.log.ev("W", "write-slice", (cap as u64) << 1 | res.is_ok() as u64, || format!("cap={cap} need={need} -> {:?}", res));
            match res {
                Ok(()) => {
                    // V: whenever a back end returns Ok its bytes equal the other back end's
                    if a != vec_bytes || b != vec_bytes || n != vec_bytes.len() {
                        return Some(Violation {
                            signature: format!("C17/backends-differ/{}", if fits { "fits" } else { "slice-too-small-but-ok" }),
                            detail: format!("{} {}: growable back end wrote {} ({} bytes); fixed slice of capacity {cap} reported Ok with as_bytes {} / len_written {} / into_bytes_vec {}", ops.name, tree.render(), hex(&vec_bytes), need, hex(&a), n, hex(&b)),
                        });
                    }
                    ctx.counters.inc("c17.backends_identical");
                }
                Err(e) => {
                    if fits {
                        return Some(Violation {
                            signature: "C17/slice-backend-failed-though-it-fits".into(),
                            detail: format!("{}: capacity {cap} >= needed {need} but the fixed-slice writer failed: {e}", ops.name),
                        });
                    }
                    ctx.counters.inc("c17.full_slice_reported_err");
                    if n > cap {
                        ctx.counters.inc("diag.C17.len_written_exceeds_capacity");
                    }
                }
            }
        }
    }

    if is_lifted("dry-no-read") {
        // harness aid: lets `sim tape` obtain the tape of a run whose consumer would hang
        return None;
    }
    // consumer
    let r = guard(|| {
        let mut reader = ProtobufReader::from(&vec_bytes[..]);
        (ops.proto_read)(&mut reader)
    });
    match r {
        Err(pi) => Some(Violation {
            signature: format!("C17/read-panicked/{feature}/{}", pi.sig()),
            detail: format!("reading back {} {} from its own encoding {} panicked: {} ({})", ops.name, tree.render(), hex(&vec_bytes), pi.message, pi.location),
        }),
        Ok(Err(e)) => Some(Violation {
            signature: format!("C17/read-failed/{feature}/type={tname}"),
            detail: format!("reading back {} {} from its own encoding {} failed: {}", ops.name, tree.render(), hex(&vec_bytes), e.to_string().lines().next().unwrap_or("")),
        }),
        Ok(Ok(v)) => {
            let got = (ops.tree)(&v);
            if proto_norm(&got) != proto_norm(&tree) {
                return Some(Violation {
                    signature: format!("C17/not-proto-equal/{feature}/type={tname}"),
                    detail: format!("{}: wrote {} as {}, read back {}", ops.name, tree.render(), hex(&vec_bytes), got.render()),
                });
            }
            if got != tree {
                ctx.counters.inc("probe.roundtrip_equal_only_up_to_default_equivalence");
            }
            ctx.counters.inc("c17.roundtrip_ok");
            ctx.nontrivial = true;
            ctx.log.ev("R", "read", got.hash(), || "ok".to_string());
            None
        }
    }
}

// ------------------------------------------------------------------------------------------------
// the ProtoWrite / ProtoRead primitives are blanket impls over io::Write / io::Read

#[derive(Debug, Clone, PartialEq)]
enum Prim {
    Varint(u64),
    Bool(bool),
    Sint32(i32),
    Sint64(i64),
    Uint32(u32),
    Uint64(u64),
    Tag(u32, u8),
    Sfixed32(i32),
    EnumVariant(u32),
    /// bytes / string read to the end of the stream, so they only occur last
    Bytes(Vec<u8>),
    Str(String),
}

fn draw_u64(l: &mut Lane<'_>) -> u64 {
    match l.draw(6) {
        0 => l.draw(3),
        1 => {
            let k = 1 + l.draw(9);
            ((1u128 << (7 * k).min(64)) as i128 + l.draw(3) as i128 - 1).clamp(0, u64::MAX as i128) as u64
        }
        2 => u64::MAX - l.draw(2),
        3 => (1u64 << l.draw(64)).wrapping_sub(l.draw(2)),
        _ => l.draw(u64::MAX),
    }
}

fn draw_prim(l: &mut Lane<'_>, last: bool) -> Prim {
    match l.draw(if last { 11 } else { 9 }) {
        0 => Prim::Varint(draw_u64(l)),
        1 => Prim::Bool(l.draw(2) == 1),
        2 => Prim::Sint32(match l.draw(5) {
            0 => i32::MIN,
            1 => i32::MAX,
            2 => -1,
            _ => draw_u64(l) as i32,
        }),
        3 => Prim::Sint64(match l.draw(5) {
            0 => i64::MIN,
            1 => i64::MAX,
            2 => -1,
            _ => draw_u64(l) as i64,
        }),
        4 => Prim::Uint32(draw_u64(l) as u32),
        5 => Prim::Uint64(draw_u64(l)),
        6 => Prim::Tag((draw_u64(l) as u32) >> 3, [0u8, 1, 2, 5][l.draw(4) as usize]),
        7 => Prim::Sfixed32(draw_u64(l) as i32),
        8 => Prim::EnumVariant(draw_u64(l) as u32),
        9 => {
            let n = l.draw(20) as usize;
            Prim::Bytes((0..n).map(|_| l.draw(256) as u8).collect())
        }
        _ => {
            let n = l.draw(12) as usize;
            Prim::Str((0..n).map(|_| ['a', 'ä', '€', '0', ' '][l.draw(5) as usize]).collect())
        }
    }
}

fn fmt_of(f: u8) -> asn1rs::protocol::protobuf::Format {
    use asn1rs::protocol::protobuf::Format;
    match f {
        0 => Format::VarInt,
        1 => Format::Fixed64,
        2 => Format::LengthDelimited,
        _ => Format::Fixed32,
    }
}

fn write_prim(w: &mut FaultyWrite, p: &Prim) -> Result<(), String> {
    let r = match p {
        Prim::Varint(v) => w.write_varint(*v),
        Prim::Bool(v) => w.write_bool(*v),
        Prim::Sint32(v) => w.write_sint32(*v),
        Prim::Sint64(v) => w.write_sint64(*v),
        Prim::Uint32(v) => w.write_uint32(*v),
        Prim::Uint64(v) => w.write_uint64(*v),
        Prim::Tag(f, fmt) => w.write_tag(*f, fmt_of(*fmt)),
        Prim::Sfixed32(v) => w.write_sfixed32(*v),
        Prim::EnumVariant(v) => w.write_enum_variant(*v),
        // the length prefix is consumed by the field index in real use; the primitive pair is
        // write_bytes (length + content) / read_bytes (content to the end)
        Prim::Bytes(v) => w.write_bytes(v),
        Prim::Str(v) => w.write_string(v),
    };
    r.map_err(|e| e.to_string().lines().next().unwrap_or("").to_string())
}

fn read_prim(r: &mut FaultyRead, p: &Prim) -> Result<bool, String> {
    let res = match p {
        Prim::Varint(v) => r.read_varint().map(|g| g == *v),
        Prim::Bool(v) => r.read_bool().map(|g| g == *v),
        Prim::Sint32(v) => r.read_sint32().map(|g| g == *v),
        Prim::Sint64(v) => r.read_sint64().map(|g| g == *v),
        Prim::Uint32(v) => r.read_uint32().map(|g| g == *v),
        Prim::Uint64(v) => r.read_uint64().map(|g| g == *v),
        Prim::Tag(f, fmt) => r.read_tag().map(|g| g == (*f, fmt_of(*fmt))),
        Prim::Sfixed32(v) => r.read_sfixed32().map(|g| g == *v),
        Prim::EnumVariant(v) => r.read_enum_variant().map(|g| g == *v),
        Prim::Bytes(v) => r.read_varint().and_then(|n| r.read_bytes().map(|g| n as usize == v.len() && g == *v)),
        Prim::Str(v) => r.read_varint().and_then(|n| r.read_string().map(|g| n as usize == v.len() && g == *v)),
    };
    res.map_err(|e| e.to_string().lines().next().unwrap_or("").to_string())
}

fn run_primitives(ctx: &mut RunCtx<'_>) -> Option<Violation> {
    let (k, wplan, rplan, fail_mode) = {
        let mut l0 = Lane::new(ctx.ch, 0);
        (1 + l0.draw(6) as usize, IoPlan::benign(&mut l0), IoPlan::benign(&mut l0), l0.draw(5))
    };
    let mut prims = Vec::new();
    for i in 0..k {
        let mut l1 = Lane::new(ctx.ch, 1);
        prims.push(draw_prim(&mut l1, i + 1 == k));
    }
    ctx.note(|| format!("primitives {:?}; writer io {}; reader io {}", prims, wplan.describe(), rplan.describe()));
    let mut sink = FaultyWrite::new(wplan.clone());
    let mut ends = Vec::new();
    for p in &prims {
        match guard(|| write_prim(&mut sink, p)) {
            Err(pi) => return Some(Violation { signature: format!("C17/primitive-write-panicked/{}", pi.sig()), detail: format!("{:?}: {}", p, pi.message) }),
            Ok(Err(e)) => {
                return Some(Violation {
                    signature: "C17/primitive-write-failed-under-legal-io".into(),
                    detail: format!("writing {:?} failed with {e} although the Write object only transferred short counts / returned Interrupted ({})", p, wplan.describe()),
                })
            }
            Ok(Ok(())) => ends.push(sink.sink.len()),
        }
    }
    ctx.counters.add("fault.IO-SHORT", sink.stats.short);
    ctx.counters.add("fault.IO-EINTR", sink.stats.eintr);
    let stream = sink.sink.clone();
    ctx.log.ev("W", "prims", crate::choices::fnv1a(&stream), || hex(&stream));
    let mut src = FaultyRead::new(stream.clone(), rplan.clone());
    for (i, p) in prims.iter().enumerate() {
        match guard(|| read_prim(&mut src, p)) {
            Err(pi) => return Some(Violation { signature: format!("C17/primitive-read-panicked/{}", pi.sig()), detail: format!("{:?}: {}", p, pi.message) }),
            Ok(Err(e)) => {
                return Some(Violation {
                    signature: "C17/primitive-read-failed-under-legal-io".into(),
                    detail: format!("item {i} {:?} of stream {} failed to read back: {e}; reader io {}", p, hex(&stream), rplan.describe()),
                })
            }
            Ok(Ok(false)) => {
                return Some(Violation { signature: format!("C17/primitive-value-changed/{}", format!("{:?}", p).split('(').next().unwrap_or("?")), detail: format!("item {i} {:?} of stream {} read back as a different value; reader io {}", p, hex(&stream), rplan.describe()) })
            }
            Ok(Ok(true)) => {
                if src.pos != ends[i] {
                    return Some(Violation { signature: "C17/primitive-consumed-bytes".into(), detail: format!("item {i} {:?} ends at byte {} but the reader consumed {}", p, ends[i], src.pos) });
                }
                ctx.counters.inc("c17.primitives_read_back_exact");
            }
        }
    }
    ctx.counters.add("fault.IO-SHORT", src.stats.short);
    ctx.counters.add("fault.IO-EINTR", src.stats.eintr);
    if src.stats.eintr > 0 || sink.stats.eintr > 0 {
        ctx.counters.inc("probe.EINTR_retried");
    }
    ctx.nontrivial = true;
    // failing I/O: the property is silent (diagnostics): Err, never a value
    if fail_mode >= 3 && !stream.is_empty() {
        let kpos = ctx.ch.draw(0, stream.len() as u64) as usize;
        let mut p = rplan.clone();
        if fail_mode == 3 {
            p.eof_at = Some(kpos);
            ctx.counters.inc("fault.IO-EOF@k");
        } else {
            p.err_at = Some((kpos, hard_error_kind(&mut Lane::new(ctx.ch, 0))));
            ctx.counters.inc("fault.IO-ERR@k");
        }
        let mut src = FaultyRead::new(stream.clone(), p);
        for (i, pr) in prims.iter().enumerate() {
            match guard(|| read_prim(&mut src, pr)) {
                Ok(Ok(true)) => {
                    if ends[i] > kpos && !matches!(pr, Prim::Bytes(_) | Prim::Str(_)) {
                        ctx.counters.inc("diag.C17.primitive_past_failure_point_read_ok");
                    }
                }
                Ok(Ok(false)) => {
                    ctx.counters.inc("diag.C17.primitive_value_changed_under_failing_io");
                    break;
                }
                Ok(Err(_)) => {
                    ctx.counters.inc("c17.failing_io_gave_err");
                    break;
                }
                Err(_) => {
                    ctx.counters.inc("diag.C17.primitive_read_panicked_under_failing_io");
                    break;
                }
            }
        }
        // IO-ZERO on the writer
        let mut wp = wplan.clone();
        wp.zero_at = Some(kpos);
        ctx.counters.inc("fault.IO-ZERO");
        let mut sink = FaultyWrite::new(wp);
        for pr in &prims {
            match guard(|| write_prim(&mut sink, pr)) {
                Ok(Ok(())) => {}
                Ok(Err(_)) => {
                    ctx.counters.inc("c17.zero_write_gave_err");
                    break;
                }
                Err(_) => {
                    ctx.counters.inc("diag.C17.primitive_write_panicked_under_zero_write");
                    break;
                }
            }
        }
    }
    None
}
