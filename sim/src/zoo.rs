//! Type zoo registry (DESIGN 3, 4): the operation tables of all zoo crates in the append-only order of
//! `zoo/ORDER` (pinned replay tapes address types by index).

pub use simcore::zoo_ops::*;
use std::sync::OnceLock;

include!(concat!(env!("OUT_DIR"), "/zoo_gen.rs"));

pub struct Zoo {
    pub types: Vec<TypeOps>,
}

static ZOO: OnceLock<Zoo> = OnceLock::new();

pub fn zoo() -> &'static Zoo {
    ZOO.get_or_init(|| {
        let mut types = Vec::new();
        register_all(&mut types, prims);
        Zoo { types }
    })
}

fn prims(types: &mut Vec<TypeOps>) {
    {
        // descriptor-level types for DER (the only kinds rw/der.rs implements besides ENUMERATED)
        types.push(ops::<prim::PBool>("prim.PBool", "-", &["der"]));
        types.push(ops::<prim::PInt<u8>>("prim.PIntU8", "-", &["der"]));
        types.push(ops::<prim::PInt<i8>>("prim.PIntS8", "-", &["der"]));
        types.push(ops::<prim::PInt<u16>>("prim.PIntU16", "-", &["der"]));
        types.push(ops::<prim::PInt<i16>>("prim.PIntS16", "-", &["der"]));
        types.push(ops::<prim::PInt<u32>>("prim.PIntU32", "-", &["der"]));
        types.push(ops::<prim::PInt<i32>>("prim.PIntS32", "-", &["der"]));
        types.push(ops::<prim::PInt<u64>>("prim.PIntU64", "-", &["der"]));
        types.push(ops::<prim::PInt<i64>>("prim.PIntS64", "-", &["der"]));
    }
}

impl Zoo {
    pub fn by_name(&self, name: &str) -> Option<usize> {
        self.types.iter().position(|t| t.name == name)
    }
    pub fn with_flag(&self, flag: u32) -> Vec<usize> {
        (0..self.types.len()).filter(|i| self.types[*i].flags & flag != 0).collect()
    }
    pub fn without_flag(&self, flag: u32) -> Vec<usize> {
        (0..self.types.len()).filter(|i| self.types[*i].flags & flag == 0).collect()
    }
}

