//! C12: value references and imports resolve like literals (DESIGN 5.C12, narrow). The set of loaded
//! modules and the order of `load_file` calls is environment (`read_dir` order is unspecified).

use crate::choices::Lane;
use crate::engine::*;
use crate::guard::guard;
use asn1rs::model::asn::MultiModuleResolver;
use asn1rs::model::parse::Tokenizer;
use asn1rs::model::Model;

#[derive(Debug, Clone)]
enum Slot {
    Int(i64),
    Bool(bool),
    Str(String),
}

impl Slot {
    fn literal(&self) -> String {
        match self {
            Slot::Int(i) => i.to_string(),
            Slot::Bool(b) => if *b { "TRUE" } else { "FALSE" }.to_string(),
            Slot::Str(s) => format!("\"{}\"", s),
        }
    }
    fn kind(&self) -> &'static str {
        match self {
            Slot::Int(_) => "INTEGER",
            Slot::Bool(_) => "BOOLEAN",
            Slot::Str(_) => "UTF8String",
        }
    }
}

#[derive(Debug, Clone)]
enum Piece {
    T(String),
    S(usize),
}

#[derive(Debug, Clone, Copy, PartialEq)]
enum Place {
    Literal,
    Local,
    /// sibling imported by name only
    SibA,
    /// sibling with OID, imported with name + OID
    SibB,
    /// sibling with OID, imported under ANOTHER name + the right OID (match by OID only)
    SibC,
    /// imported from module Mid, which does not define it but imports it from module Origin
    /// (a re-exported reference: an import chain over two hops)
    Chain,
}

struct Gen<'a, 'b> {
    l: &'a mut Lane<'b>,
    pieces: Vec<Piece>,
    slots: Vec<Slot>,
}

impl Gen<'_, '_> {
    fn t(&mut self, s: &str) {
        self.pieces.push(Piece::T(s.to_string()));
    }
    fn int(&mut self, v: i64) {
        self.slots.push(Slot::Int(v));
        self.pieces.push(Piece::S(self.slots.len() - 1));
    }
    fn range(&mut self, signed: bool) {
        let lo = if signed { self.l.draw(200) as i64 - 100 } else { self.l.draw(50) as i64 };
        let hi = lo + if self.l.draw(10) == 0 { 0 } else { self.l.draw(100_000) as i64 };
        self.t("(");
        self.int(lo);
        self.t("..");
        self.int(hi);
        if self.l.draw(4) == 0 {
            self.t(",...");
        }
        self.t(")");
    }
    fn size(&mut self) {
        self.t("(SIZE(");
        let lo = self.l.draw(20) as i64;
        if self.l.draw(4) == 0 {
            self.int(lo);
        } else {
            self.int(lo);
            self.t("..");
            // often lo == hi spelled as two different items (two references, or a reference and a literal):
            // only the resolver can then see that the range is a fixed size
            let hi = lo + if self.l.draw(8) == 0 { 0 } else { self.l.draw(300) as i64 };
            self.int(hi);
            if self.l.draw(4) == 0 {
                self.t(",...");
            }
        }
        self.t("))");
    }
    fn definition(&mut self, n: usize) {
        self.t(&format!("  T{n} ::= "));
        match self.l.draw(7) {
            0 => {
                self.t("INTEGER ");
                self.range(true);
            }
            1 => {
                let k = ["UTF8String", "IA5String", "OCTET STRING", "BIT STRING", "NumericString"][self.l.draw(5) as usize];
                self.t(k);
                self.t(" ");
                self.size();
            }
            2 => {
                self.t("SEQUENCE ");
                self.size();
                self.t(" OF INTEGER ");
                self.range(false);
            }
            3 | 4 => {
                self.t("SEQUENCE { a INTEGER ");
                self.range(true);
                self.t(" DEFAULT ");
                let v = self.l.draw(40) as i64;
                self.int(v);
                self.t(", b BOOLEAN DEFAULT ");
                let b = self.l.draw(2) == 1;
                self.slots.push(Slot::Bool(b));
                self.pieces.push(Piece::S(self.slots.len() - 1));
                self.t(", c UTF8String DEFAULT ");
                let s = ["hello", "a b", "x", "default text"][self.l.draw(4) as usize].to_string();
                self.slots.push(Slot::Str(s));
                self.pieces.push(Piece::S(self.slots.len() - 1));
                self.t(", d SEQUENCE ");
                self.size();
                self.t(" OF BOOLEAN OPTIONAL, e INTEGER DEFAULT ");
                let v = self.l.draw(1000) as i64;
                self.int(v);
                self.t(" }");
            }
            5 => {
                self.t("CHOICE { x INTEGER ");
                self.range(false);
                self.t(", y OCTET STRING ");
                self.size();
                self.t(", z SEQUENCE ");
                self.size();
                self.t(" OF UTF8String ");
                self.size();
                self.t(" }");
            }
            _ => {
                self.t("SET { p INTEGER ");
                self.range(true);
                self.t(" OPTIONAL, q BIT STRING ");
                self.size();
                self.t(" }");
            }
        }
        self.t("\n");
    }
}

const OID_B: &str = "{ iso(1) sib(2) b(3) }";
const OID_B_DECOY: &str = "{ iso(1) sib(2) b(4) }";
const OID_C: &str = "{ iso(1) sib(2) c(9) version(1) }";

fn resolve_env(texts: &[&String]) -> Result<Result<Vec<(String, String)>, String>, crate::guard::PanicInfo> {
    guard(|| {
        let mut r = MultiModuleResolver::default();
        for t in texts {
            // Converter::load_file re-stated
            let tokens = Tokenizer.parse(t);
            let model = Model::try_from(tokens).map_err(|e| format!("parse: {}", e.to_string().lines().next().unwrap_or("")))?;
            r.push(model);
        }
        let models = r.try_resolve_all().map_err(|e| format!("resolve: {:?}", e))?;
        Ok(models.iter().map(|m| (m.name.clone(), format!("{:?}", m.definitions))).collect())
    })
}

pub fn run(ctx: &mut RunCtx<'_>) -> Option<Violation> {
    let lifted: Vec<String> = ctx.lifted.to_vec();
    let is_lifted = move |f: &str| lifted.iter().any(|l| l == f || l == "all");
    let mut l = Lane::new(ctx.ch, 1);
    let ndefs = 1 + l.draw(6) as usize;
    let mut g = Gen { l: &mut l, pieces: Vec::new(), slots: Vec::new() };
    for n in 0..ndefs {
        g.definition(n);
    }
    let (pieces, slots) = (g.pieces, g.slots);
    // which literals become references, and where the reference lives
    let places: Vec<Place> = slots
        .iter()
        .map(|_| match l.draw(9) {
            0..=2 => Place::Literal,
            3 | 4 => Place::Local,
            5 => Place::SibA,
            6 => Place::SibB,
            7 => Place::SibC,
            _ => Place::Chain,
        })
        .collect();
    // the value assignment's OWN type: plain, a constrained INTEGER that contains the value, or a type
    // reference defined next to it (`n VInt ::= 5` with `VInt ::= INTEGER`)
    let own: Vec<u64> = slots.iter().map(|_| l.draw(4)).collect();
    let own_type = |i: usize, s: &Slot| -> String {
        match (s, own[i]) {
            (Slot::Int(v), 2) => format!("INTEGER ({}..{})", v.saturating_sub(3), v.saturating_add(5)),
            (Slot::Int(_), 3) => "VInt".to_string(),
            (Slot::Bool(_), 3) => "VBool".to_string(),
            (Slot::Str(_), 3) => "VStr".to_string(),
            (s, _) => s.kind().to_string(),
        }
    };
    const TYPEDEFS: &str = "  VInt ::= INTEGER\n  VBool ::= BOOLEAN\n  VStr ::= UTF8String\n";
    let name_of = |i: usize| format!("vref{}", i);
    let render = |use_refs: bool, broken: Option<(usize, &str)>| -> String {
        let mut body = String::new();
        for p in &pieces {
            match p {
                Piece::T(t) => body.push_str(t),
                Piece::S(i) => {
                    if let Some((bi, name)) = broken {
                        if bi == *i {
                            body.push_str(name);
                            continue;
                        }
                    }
                    if use_refs && places[*i] != Place::Literal {
                        body.push_str(&name_of(*i));
                    } else {
                        body.push_str(&slots[*i].literal());
                    }
                }
            }
        }
        body
    };
    let decl = |i: usize| format!("  {} {} ::= {}\n", name_of(i), own_type(i, &slots[i]), slots[i].literal());
    let of_place = |pl: Place| -> Vec<usize> { (0..slots.len()).filter(|i| places[*i] == pl).collect() };
    let locals_first = l.draw(2) == 0;
    let c_alias = "SibCRenamed";
    // the type definitions a local value assignment refers to are part of BOTH variants of Main
    let main_typedefs = if of_place(Place::Local).iter().any(|i| own[*i] == 3) { TYPEDEFS } else { "" };
    if (0..slots.len()).any(|i| places[i] != Place::Literal && own[i] == 3) {
        ctx.counters.inc("probe.value_typed_by_type_reference");
    }
    if (0..slots.len()).any(|i| places[i] != Place::Literal && own[i] == 2 && matches!(slots[i], Slot::Int(_))) {
        ctx.counters.inc("probe.value_typed_by_constrained_integer");
    }
    let main_with = |body: String| -> String {
        let mut m = String::from("Main DEFINITIONS AUTOMATIC TAGS ::= BEGIN\n");
        let (a, b, c, ch) = (of_place(Place::SibA), of_place(Place::SibB), of_place(Place::SibC), of_place(Place::Chain));
        if !(a.is_empty() && b.is_empty() && c.is_empty() && ch.is_empty()) {
            m.push_str("  IMPORTS\n");
            if !a.is_empty() {
                m.push_str(&format!("    {} FROM SibA\n", a.iter().map(|i| name_of(*i)).collect::<Vec<_>>().join(", ")));
            }
            if !b.is_empty() {
                m.push_str(&format!("    {} FROM SibB {}\n", b.iter().map(|i| name_of(*i)).collect::<Vec<_>>().join(", "), OID_B));
            }
            if !c.is_empty() {
                m.push_str(&format!("    {} FROM {} {}\n", c.iter().map(|i| name_of(*i)).collect::<Vec<_>>().join(", "), c_alias, OID_C));
            }
            if !ch.is_empty() {
                m.push_str(&format!("    {} FROM Mid\n", ch.iter().map(|i| name_of(*i)).collect::<Vec<_>>().join(", ")));
            }
            m.push_str("  ;\n");
        }
        m.push_str(main_typedefs);
        let locals: String = of_place(Place::Local).into_iter().map(decl).collect();
        if locals_first {
            m.push_str(&locals);
            m.push_str(&body);
        } else {
            m.push_str(&body);
            m.push_str(&locals);
        }
        m.push_str("END\n");
        m
    };
    let literal_main = format!("Main DEFINITIONS AUTOMATIC TAGS ::= BEGIN\n{}{}END\n", main_typedefs, render(false, None));
    let ref_main = main_with(render(true, None));
    let sib = |name: &str, oid: &str, pl: Place, twist: i64| -> String {
        let mut m = format!("{name} {oid} DEFINITIONS AUTOMATIC TAGS ::= BEGIN\n");
        if of_place(pl).iter().any(|i| own[*i] == 3) {
            m.push_str(TYPEDEFS);
        }
        for i in of_place(pl) {
            if twist != 0 {
                // a decoy: same names, other values
                let s = match &slots[i] {
                    Slot::Int(v) => Slot::Int(v + twist),
                    Slot::Bool(b) => Slot::Bool(!b),
                    Slot::Str(s) => Slot::Str(format!("{s}-decoy")),
                };
                m.push_str(&format!("  {} {} ::= {}\n", name_of(i), own_type(i, &s), s.literal()));
            } else {
                m.push_str(&decl(i));
            }
        }
        m.push_str("END\n");
        m
    };
    let sib_a = sib("SibA", "", Place::SibA, 0);
    let sib_b = sib("SibB", OID_B, Place::SibB, 0);
    let sib_c = sib("SibC", OID_C, Place::SibC, 0);
    let origin = sib("Origin", "", Place::Chain, 0);
    let mid = format!(
        "Mid DEFINITIONS AUTOMATIC TAGS ::= BEGIN\n  IMPORTS {} FROM Origin;\n  midOwn INTEGER ::= 1\nEND\n",
        of_place(Place::Chain).iter().map(|i| name_of(*i)).collect::<Vec<_>>().join(", ")
    );
    // D13 scenario: a second module with the SAME NAME as SibB (or as the alias SibC is imported under)
    // but another OID - or none at all - and other values: the OID named by the import must win
    let decoy_kind = l.draw(6);
    let want_decoy = match decoy_kind {
        0 | 1 => !of_place(Place::SibB).is_empty(),
        2 => !of_place(Place::SibC).is_empty(),
        _ => false,
    };
    let decoy = if want_decoy && is_lifted("D13") {
        Some(match decoy_kind {
            0 => sib("SibB", OID_B_DECOY, Place::SibB, 7),
            1 => sib("SibB", "", Place::SibB, 11),
            _ => sib(c_alias, "", Place::SibC, 13),
        })
    } else {
        None
    };
    if want_decoy && !is_lifted("D13") {
        ctx.counters.inc("known.D13.redirected_draws");
    }
    if decoy.is_some() {
        ctx.counters.inc(["probe.decoy_same_name_other_oid", "probe.decoy_same_name_no_oid", "probe.decoy_alias_name_no_oid"][decoy_kind as usize]);
    }
    let extra = "Unrelated DEFINITIONS AUTOMATIC TAGS ::= BEGIN\n  vref0 INTEGER ::= 424242\n  vref1 INTEGER ::= 424243\n  Other ::= SEQUENCE { a BOOLEAN }\nEND\n".to_string();
    let want_extra = l.draw(3) == 0;

    let mut env: Vec<(&str, &String)> = vec![("Main", &ref_main)];
    if !of_place(Place::SibA).is_empty() {
        env.push(("SibA", &sib_a));
    }
    if !of_place(Place::SibB).is_empty() {
        env.push(("SibB", &sib_b));
    }
    if !of_place(Place::SibC).is_empty() {
        env.push(("SibC", &sib_c));
    }
    if !of_place(Place::Chain).is_empty() {
        env.push(("Mid", &mid));
        env.push(("Origin", &origin));
    }
    if let Some(d) = &decoy {
        env.push(("decoy", d));
    }
    if want_extra {
        env.push(("Unrelated", &extra));
        ctx.counters.inc("fault.E-EXTRA");
    }
    let nrefs = places.iter().filter(|p| **p != Place::Literal).count();
    if ctx.log.lines.is_some() {
        ctx.scenario.push(format!("literal module:\n{literal_main}"));
        ctx.scenario.push(format!("referencing module:\n{ref_main}"));
        ctx.scenario.push(format!("environment: {:?}", env.iter().map(|e| e.0).collect::<Vec<_>>()));
    }

    // the literal module alone is the reference model
    let expected = match resolve_env(&[&literal_main]) {
        Ok(Ok(v)) => v.into_iter().find(|(n, _)| n == "Main").map(|x| x.1).unwrap_or_default(),
        Ok(Err(e)) => {
            // the generator is supposed to emit valid modules
            return Some(Violation { signature: "HARNESS/c12-literal-module-rejected".into(), detail: format!("{e}\n{literal_main}") });
        }
        Err(pi) => return Some(Violation { signature: format!("C12/panic/{}", pi.sig()), detail: format!("{}\n{literal_main}", pi.message) }),
    };

    // load orders (E-ORDER): all permutations up to 4 modules, else a sample
    let n = env.len();
    let mut orders: Vec<Vec<usize>> = Vec::new();
    if n <= 4 {
        permutations(n, &mut orders);
    } else {
        for _ in 0..8 {
            let mut idx: Vec<usize> = (0..n).collect();
            for i in (1..n).rev() {
                let j = l.draw(i as u64 + 1) as usize;
                idx.swap(i, j);
            }
            orders.push(idx);
        }
    }
    ctx.counters.add("fault.E-ORDER", orders.len() as u64);
    for order in &orders {
        let texts: Vec<&String> = order.iter().map(|i| env[*i].1).collect();
        let names: Vec<&str> = order.iter().map(|i| env[*i].0).collect();
        match resolve_env(&texts) {
            Err(pi) => return Some(Violation { signature: format!("C12/panic/{}", pi.sig()), detail: format!("load order {:?}: {}", names, pi.message) }),
            Ok(Err(e)) => {
                return Some(Violation {
                    signature: format!("C12/resolvable-references-rejected/{}", e.split(':').next().unwrap_or("?")),
                    detail: format!("load order {:?}: {e}\nreferencing module:\n{ref_main}\nenvironment:\n{}", names, env.iter().map(|e| e.1.as_str()).collect::<Vec<_>>().join("\n")),
                })
            }
            Ok(Ok(models)) => {
                let got = models.into_iter().find(|(n, _)| n == "Main").map(|x| x.1).unwrap_or_default();
                if got != expected {
                    return Some(Violation {
                        signature: format!("C12/resolved-model-differs-from-literal/{}", if decoy.is_some() { "same-name-other-oid-module-loaded" } else { "plain" }),
                        detail: format!("load order {:?}:\n with references: {got}\n with literals:   {expected}\nreferencing module:\n{ref_main}", names),
                    });
                }
                ctx.log.ev("E", "load", crate::choices::fnv1a(format!("{:?}", names).as_bytes()), || format!("{:?} -> equal to the literal module", names));
            }
        }
    }
    if nrefs > 0 {
        ctx.nontrivial = true;
        ctx.counters.inc("c12.schemas_with_references_resolved_in_every_order");
    }
    ctx.counters.add("c12.references", nrefs as u64);
    for (pl, k) in [(Place::Local, "local"), (Place::SibA, "import_by_name"), (Place::SibB, "import_by_name_and_oid"), (Place::SibC, "import_by_oid_only"), (Place::Chain, "import_chain_over_two_modules")] {
        if !of_place(pl).is_empty() {
            ctx.counters.inc(&format!("probe.reference_{k}"));
        }
    }

    // faults: a reference that cannot be resolved must be an error, never Ok
    let fault = l.draw(4);
    let refs: Vec<usize> = (0..slots.len()).filter(|i| places[*i] != Place::Literal).collect();
    match fault {
        1 if env.len() > 1 => {
            // E-MISSING: a needed sibling is not loaded
            let drop = 1 + l.draw(env.len() as u64 - 1) as usize;
            let dropped = env[drop].0;
            if dropped == "Unrelated" || dropped == "decoy" {
                return None;
            }
            // (with a decoy loaded, dropping the real sibling leaves a same-named module: skip)
            if dropped == "Mid" && false {
                return None;
            }
            if (dropped == "SibB" || dropped == "SibC") && decoy.is_some() {
                return None;
            }
            let texts: Vec<&String> = env.iter().enumerate().filter(|(i, _)| *i != drop).map(|(_, e)| e.1).collect();
            ctx.counters.inc("fault.E-MISSING");
            match resolve_env(&texts) {
                Ok(Err(_)) => ctx.counters.inc("c12.missing_module_gave_error"),
                Ok(Ok(_)) => {
                    return Some(Violation {
                        signature: "C12/missing-module-resolved-anyway".into(),
                        detail: format!("module {dropped} was not loaded but the references imported from it resolved\nreferencing module:\n{ref_main}"),
                    })
                }
                Err(pi) => return Some(Violation { signature: format!("C12/panic/{}", pi.sig()), detail: pi.message }),
            }
            ctx.log.ev("E", "missing", drop as u64, || dropped.to_string());
        }
        2 if !refs.is_empty() => {
            // a reference renamed to an undefined name
            let i = refs[l.draw(refs.len() as u64) as usize];
            let broken = main_with(render(true, Some((i, "undefinedRef"))));
            let mut texts: Vec<&String> = env.iter().skip(1).map(|e| e.1).collect();
            texts.insert(0, &broken);
            ctx.counters.inc("fault.REF-UNDEFINED");
            match resolve_env(&texts) {
                Ok(Err(_)) => ctx.counters.inc("c12.undefined_reference_gave_error"),
                Ok(Ok(_)) => return Some(Violation { signature: "C12/undefined-reference-resolved".into(), detail: format!("reference undefinedRef does not exist but the module resolved:\n{broken}") }),
                Err(pi) => return Some(Violation { signature: format!("C12/panic/{}", pi.sig()), detail: pi.message }),
            }
            ctx.log.ev("E", "undefined-ref", i as u64, String::new);
        }
        3 => {
            // a non-integer value where an integer is needed
            let ints: Vec<usize> = (0..slots.len()).filter(|i| matches!(slots[*i], Slot::Int(_))).collect();
            if ints.is_empty() {
                return None;
            }
            let i = ints[l.draw(ints.len() as u64) as usize];
            // DEFAULT slots accept any literal kind syntactically; only range/size slots need integers
            let is_default_slot = pieces.iter().zip(pieces.iter().skip(1)).any(|(a, b)| matches!((a, b), (Piece::T(t), Piece::S(j)) if *j == i && t.trim_end().ends_with("DEFAULT")));
            if is_default_slot {
                return None;
            }
            let mut broken = main_with(render(true, Some((i, "notAnInteger"))));
            broken = broken.replace("END\n", &format!("  notAnInteger {} ::= {}\nEND\n", if l.draw(2) == 0 { "BOOLEAN" } else { "UTF8String" }, if broken.len() % 2 == 0 { "TRUE" } else { "\"text\"" }));
            // keep kind and literal consistent
            let broken = if broken.contains("notAnInteger BOOLEAN ::= \"text\"") { broken.replace("notAnInteger BOOLEAN ::= \"text\"", "notAnInteger BOOLEAN ::= TRUE") } else { broken.replace("notAnInteger UTF8String ::= TRUE", "notAnInteger UTF8String ::= \"text\"") };
            let mut texts: Vec<&String> = env.iter().skip(1).map(|e| e.1).collect();
            texts.insert(0, &broken);
            ctx.counters.inc("fault.REF-NOT-INTEGER");
            match resolve_env(&texts) {
                Ok(Err(_)) => ctx.counters.inc("c12.non_integer_reference_gave_error"),
                Ok(Ok(_)) => return Some(Violation { signature: "C12/non-integer-reference-resolved".into(), detail: format!("a BOOLEAN/string value was accepted as an integer bound:\n{broken}") }),
                Err(pi) => return Some(Violation { signature: format!("C12/panic/{}", pi.sig()), detail: pi.message }),
            }
            ctx.log.ev("E", "non-integer-ref", i as u64, String::new);
        }
        _ => {}
    }
    None
}

fn permutations(n: usize, out: &mut Vec<Vec<usize>>) {
    fn rec(cur: &mut Vec<usize>, used: &mut Vec<bool>, n: usize, out: &mut Vec<Vec<usize>>) {
        if cur.len() == n {
            out.push(cur.clone());
            return;
        }
        for i in 0..n {
            if !used[i] {
                used[i] = true;
                cur.push(i);
                rec(cur, used, n, out);
                cur.pop();
                used[i] = false;
            }
        }
    }
    rec(&mut Vec::new(), &mut vec![false; n], n, out);
}
