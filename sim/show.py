import json,sys
j=json.load(sys.stdin)
for v in j['violations']:
    print(v['run'], v['signature']); print('   ', v['detail'][:500])
c=j['counters']
print({k:v for k,v in c.items() if k.startswith(('known','viol','diag','max','probe','fault'))})
print('runs',j['runs'],'nontrivial',j['nontrivial'])
