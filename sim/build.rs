//! Generates `zoo_gen.rs` from `zoo/*.asn1`: one Rust module per ASN.1 module (compiled by asn1rs
//! itself through `asn_to_rust!`) plus the registry list. The `.asn1` files are the single source.
use std::fmt::Write as _;
use std::path::Path;

fn main() {
    println!("cargo:rerun-if-changed=zoo");
    println!("cargo:rerun-if-changed=build.rs");
    let mut files: Vec<_> = std::fs::read_dir("zoo")
        .unwrap()
        .filter_map(|e| e.ok())
        .map(|e| e.path())
        .filter(|p| p.extension().map(|e| e == "asn1").unwrap_or(false))
        .collect();
    files.sort();
    // stable, append-only registration order (pinned replay tapes address types by index)
    let order: Vec<String> = std::fs::read_to_string("zoo/ORDER").unwrap_or_default().lines().map(|l| l.trim().to_string()).filter(|l| !l.is_empty() && !l.starts_with('#')).collect();
    let marker = order.iter().position(|l| l.starts_with("---")).unwrap_or(order.len());
    let rank = |p: &std::path::PathBuf| -> (usize, String) {
        let stem = p.file_stem().unwrap().to_str().unwrap().to_string();
        match order.iter().position(|o| *o == stem) {
            Some(i) => (i, stem),
            None => (usize::MAX, stem),
        }
    };
    files.sort_by_key(|p| rank(p));
    println!("cargo:rerun-if-changed=zoo/ORDER");

    let mut out = String::new();
    let mut reg = String::new();
    let mut reg_more = String::new();
    let mut texts = String::new();
    for path in &files {
        println!("cargo:rerun-if-changed={}", path.display());
        let stem = path.file_stem().unwrap().to_str().unwrap().to_string();
        let text = std::fs::read_to_string(path).unwrap();
        assert!(!text.contains("\"####"), "zoo text must not contain \"####");
        let module = text
            .lines()
            .find(|l| !l.trim_start().starts_with("--") && !l.trim().is_empty())
            .and_then(|l| l.split_whitespace().next())
            .unwrap()
            .to_string();
        let file_flags: Vec<String> = text
            .lines()
            .filter_map(|l| l.trim().strip_prefix("-- @file:"))
            .flat_map(|l| l.split_whitespace().map(str::to_string).collect::<Vec<_>>())
            .collect();
        let _ = writeln!(out, "#[allow(dead_code, unused, clippy::all)]\npub mod {} {{\n    use asn1rs::prelude::*;\n    asn_to_rust!(r####\"{}\"####);\n}}", stem, text);
        let _ = writeln!(texts, "    ({:?}, {:?}, r####\"{}\"####),", stem, module, text);
        for line in text.lines() {
            let t = line.trim_start();
            let mut it = t.splitn(2, "::=");
            let (Some(name), Some(rest)) = (it.next(), it.next()) else { continue };
            let name = name.trim();
            if name.is_empty()
                || !name.chars().next().unwrap().is_ascii_uppercase()
                || !name.chars().all(|c| c.is_ascii_alphanumeric())
                || name == module
            {
                continue;
            }
            if t.contains("DEFINITIONS") {
                continue;
            }
            let mut flags: Vec<String> = file_flags.clone();
            if let Some(idx) = rest.rfind("--") {
                for tok in rest[idx + 2..].split_whitespace() {
                    if let Some(f) = tok.strip_prefix('@') {
                        flags.push(f.to_string());
                    }
                }
            }
            if flags.iter().any(|f| f == "noproto") {
                flags.retain(|f| f != "proto" && f != "noproto");
            }
            let base = rank(path).0 < marker;
            let _ = writeln!(
                if base { &mut reg } else { &mut reg_more },
                "    v.push(crate::zoo::ops::<{stem}::{name}>(\"{stem}.{name}\", {module:?}, &{flags:?}));",
            );
        }
    }
    let _ = writeln!(out, "pub fn register(v: &mut Vec<crate::zoo::TypeOps>) {{\n{}}}", reg);
    let _ = writeln!(out, "pub fn register_more(v: &mut Vec<crate::zoo::TypeOps>) {{\n{}}}", reg_more);
    let _ = writeln!(out, "/// (rust module, ASN.1 module name, text)\npub const ZOO_TEXTS: &[(&str, &str, &str)] = &[\n{}];", texts);
    let dest = Path::new(&std::env::var("OUT_DIR").unwrap()).join("zoo_gen.rs");
    std::fs::write(dest, out).unwrap();

    // front-end corpus: hand-written modules under /verif/corpus and the inline modules of /repo/tests/*.rs
    let mut corpus = String::from("pub const CORPUS_TEXTS: &[(&str, &str)] = &[\n");
    let mut add = |name: &str, text: &str| {
        if text.contains("\"####") || text.len() > 8 * 1024 {
            return;
        }
        let _ = writeln!(corpus, "    ({:?}, r####\"{}\"####),", name, text);
    };
    println!("cargo:rerun-if-changed=../corpus");
    let mut cf: Vec<_> = std::fs::read_dir("../corpus").map(|d| d.filter_map(|e| e.ok()).map(|e| e.path()).collect()).unwrap_or_default();
    cf.sort();
    for p in &cf {
        if p.extension().map(|e| e == "asn1").unwrap_or(false) {
            println!("cargo:rerun-if-changed={}", p.display());
            add(&format!("corpus/{}", p.file_stem().unwrap().to_str().unwrap()), &std::fs::read_to_string(p).unwrap());
        }
    }
    println!("cargo:rerun-if-changed=/repo/tests");
    let mut tf: Vec<_> = std::fs::read_dir("/repo/tests").map(|d| d.filter_map(|e| e.ok()).map(|e| e.path()).collect()).unwrap_or_default();
    tf.sort();
    for p in &tf {
        if !p.extension().map(|e| e == "rs").unwrap_or(false) {
            continue;
        }
        let Ok(src) = std::fs::read_to_string(p) else { continue };
        let mut rest = &src[..];
        let mut n = 0;
        while let Some(i) = rest.find("asn_to_rust!(") {
            rest = &rest[i + "asn_to_rust!(".len()..];
            let t = rest.trim_start();
            // raw string literal r"..." / r#"..."#
            if let Some(r) = t.strip_prefix('r') {
                let hashes = r.chars().take_while(|c| *c == '#').count();
                let r2 = &r[hashes..];
                if let Some(body) = r2.strip_prefix('"') {
                    let close = format!("\"{}", "#".repeat(hashes));
                    if let Some(end) = body.find(&close) {
                        add(&format!("repo-tests/{}#{}", p.file_stem().unwrap().to_str().unwrap(), n), &body[..end]);
                        n += 1;
                    }
                }
            }
        }
    }
    corpus.push_str("];\n");
    std::fs::write(Path::new(&std::env::var("OUT_DIR").unwrap()).join("corpus_gen.rs"), corpus).unwrap();
}
