//! Generates `zoo_gen.rs` from `zoo/*.asn1`: one Rust module per ASN.1 module (compiled by asn1rs
//! itself through `asn_to_rust!`) plus the registry list. The `.asn1` files are the single source.
use std::fmt::Write as _;
use std::path::Path;

fn main() {
    println!("cargo:rerun-if-changed=zoo");
    println!("cargo:rerun-if-changed=build.rs");
    let mut files: Vec<_> = std::fs::read_dir("zoo")
        .unwrap()
        .filter_map(|e| e.ok())
        .map(|e| e.path())
        .filter(|p| p.extension().map(|e| e == "asn1").unwrap_or(false))
        .collect();
    files.sort();

    let mut out = String::new();
    let mut reg = String::new();
    let mut texts = String::new();
    for path in &files {
        println!("cargo:rerun-if-changed={}", path.display());
        let stem = path.file_stem().unwrap().to_str().unwrap().to_string();
        let text = std::fs::read_to_string(path).unwrap();
        assert!(!text.contains("\"####"), "zoo text must not contain \"####");
        let module = text
            .lines()
            .find(|l| !l.trim_start().starts_with("--") && !l.trim().is_empty())
            .and_then(|l| l.split_whitespace().next())
            .unwrap()
            .to_string();
        let file_flags: Vec<String> = text
            .lines()
            .filter_map(|l| l.trim().strip_prefix("-- @file:"))
            .flat_map(|l| l.split_whitespace().map(str::to_string).collect::<Vec<_>>())
            .collect();
        let _ = writeln!(out, "#[allow(dead_code, unused, clippy::all)]\npub mod {} {{\n    use asn1rs::prelude::*;\n    asn_to_rust!(r####\"{}\"####);\n}}", stem, text);
        let _ = writeln!(texts, "    ({:?}, {:?}, r####\"{}\"####),", stem, module, text);
        for line in text.lines() {
            let t = line.trim_start();
            let mut it = t.splitn(2, "::=");
            let (Some(name), Some(rest)) = (it.next(), it.next()) else { continue };
            let name = name.trim();
            if name.is_empty()
                || !name.chars().next().unwrap().is_ascii_uppercase()
                || !name.chars().all(|c| c.is_ascii_alphanumeric())
                || name == module
            {
                continue;
            }
            if t.contains("DEFINITIONS") {
                continue;
            }
            let mut flags: Vec<String> = file_flags.clone();
            if let Some(idx) = rest.rfind("--") {
                for tok in rest[idx + 2..].split_whitespace() {
                    if let Some(f) = tok.strip_prefix('@') {
                        flags.push(f.to_string());
                    }
                }
            }
            if flags.iter().any(|f| f == "noproto") {
                flags.retain(|f| f != "proto" && f != "noproto");
            }
            let _ = writeln!(
                reg,
                "    v.push(crate::zoo::ops::<{stem}::{name}>(\"{stem}.{name}\", {module:?}, &{flags:?}));",
            );
        }
    }
    let _ = writeln!(out, "pub fn register(v: &mut Vec<crate::zoo::TypeOps>) {{\n{}}}", reg);
    let _ = writeln!(out, "/// (rust module, ASN.1 module name, text)\npub const ZOO_TEXTS: &[(&str, &str, &str)] = &[\n{}];", texts);
    let dest = Path::new(&std::env::var("OUT_DIR").unwrap()).join("zoo_gen.rs");
    std::fs::write(dest, out).unwrap();
}
