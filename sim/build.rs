//! Generates `zoo_gen.rs` (zoo texts + registration order; the types are compiled by the zoo crates,
//! see zoocrates/zoo_build.rs) and `corpus_gen.rs` (front-end corpus).
use std::fmt::Write as _;
use std::path::Path;

fn main() {
    println!("cargo:rerun-if-changed=zoo");
    println!("cargo:rerun-if-changed=build.rs");
    let mut files: Vec<_> = std::fs::read_dir("zoo")
        .unwrap()
        .filter_map(|e| e.ok())
        .map(|e| e.path())
        .filter(|p| p.extension().map(|e| e == "asn1").unwrap_or(false))
        .collect();
    files.sort();
    // stable, append-only registration order (pinned replay tapes address types by index)
    let order: Vec<String> = std::fs::read_to_string("zoo/ORDER").unwrap_or_default().lines().map(|l| l.trim().to_string()).filter(|l| !l.is_empty() && !l.starts_with('#')).collect();
    let marker = order.iter().position(|l| l.starts_with("---")).unwrap_or(order.len());
    let rank = |p: &std::path::PathBuf| -> (usize, String) {
        let stem = p.file_stem().unwrap().to_str().unwrap().to_string();
        match order.iter().position(|o| *o == stem) {
            Some(i) => (i, stem),
            None => (usize::MAX, stem),
        }
    };
    files.sort_by_key(|p| rank(p));
    println!("cargo:rerun-if-changed=zoo/ORDER");

    // the types themselves are compiled in the zoo crates (zoocrates/<crate>/FILES, in parallel); this
    // crate keeps the texts (front-end corpus) and the registration order, and checks that the crates
    // together cover exactly zoo/ORDER in that order
    let groups: Vec<String> = std::fs::read_to_string("zoocrates/GROUPS").expect("zoocrates/GROUPS").lines().map(|l| l.trim().to_string()).filter(|l| !l.is_empty() && !l.starts_with('#')).collect();
    println!("cargo:rerun-if-changed=zoocrates/GROUPS");
    let mut covered: Vec<String> = Vec::new();
    let mut reg = String::new();
    for g in &groups {
        if g.starts_with("---") {
            covered.push("---".into());
            reg.push_str("    prims(v);\n");
            continue;
        }
        let f = format!("zoocrates/{g}/FILES");
        println!("cargo:rerun-if-changed={f}");
        for l in std::fs::read_to_string(&f).unwrap_or_else(|e| panic!("{f}: {e}")).lines() {
            let l = l.trim();
            if !l.is_empty() && !l.starts_with('#') {
                covered.push(l.to_string());
            }
        }
        let _ = writeln!(reg, "    {g}::register(v);");
    }
    let expected: Vec<String> = order.iter().map(|l| if l.starts_with("---") { "---".to_string() } else { l.clone() }).collect();
    assert_eq!(covered, expected, "zoocrates/*/FILES (in the order of zoocrates/GROUPS) must equal zoo/ORDER");
    let on_disk: Vec<String> = files.iter().map(|p| p.file_stem().unwrap().to_str().unwrap().to_string()).collect();
    for f in &on_disk {
        assert!(covered.contains(f), "zoo/{f}.asn1 is not listed in zoo/ORDER and a zoo crate");
    }
    let _ = marker;

    let mut out = String::new();
    let mut texts = String::new();
    for path in &files {
        println!("cargo:rerun-if-changed={}", path.display());
        let stem = path.file_stem().unwrap().to_str().unwrap().to_string();
        let text = std::fs::read_to_string(path).unwrap();
        let module = text
            .lines()
            .find(|l| !l.trim_start().starts_with("--") && !l.trim().is_empty())
            .and_then(|l| l.split_whitespace().next())
            .unwrap()
            .to_string();
        let _ = writeln!(texts, "    ({:?}, {:?}, r####\"{}\"####),", stem, module, text);
    }
    let _ = writeln!(out, "pub fn register_all(v: &mut Vec<crate::zoo::TypeOps>, prims: fn(&mut Vec<crate::zoo::TypeOps>)) {{\n{}}}", reg);
    let _ = writeln!(out, "/// (rust module, ASN.1 module name, text)\npub const ZOO_TEXTS: &[(&str, &str, &str)] = &[\n{}];", texts);
    let dest = Path::new(&std::env::var("OUT_DIR").unwrap()).join("zoo_gen.rs");
    std::fs::write(dest, out).unwrap();

    // front-end corpus: hand-written modules under /verif/corpus and the inline modules of /repo/tests/*.rs
    let mut corpus = String::from("pub const CORPUS_TEXTS: &[(&str, &str)] = &[\n");
    let mut add = |name: &str, text: &str| {
        if text.contains("\"####") || text.len() > 8 * 1024 {
            return;
        }
        let _ = writeln!(corpus, "    ({:?}, r####\"{}\"####),", name, text);
    };
    println!("cargo:rerun-if-changed=../corpus");
    let mut cf: Vec<_> = std::fs::read_dir("../corpus").map(|d| d.filter_map(|e| e.ok()).map(|e| e.path()).collect()).unwrap_or_default();
    cf.sort();
    for p in &cf {
        if p.extension().map(|e| e == "asn1").unwrap_or(false) {
            println!("cargo:rerun-if-changed={}", p.display());
            add(&format!("corpus/{}", p.file_stem().unwrap().to_str().unwrap()), &std::fs::read_to_string(p).unwrap());
        }
    }
    println!("cargo:rerun-if-changed=/repo/tests");
    let mut tf: Vec<_> = std::fs::read_dir("/repo/tests").map(|d| d.filter_map(|e| e.ok()).map(|e| e.path()).collect()).unwrap_or_default();
    tf.sort();
    for p in &tf {
        if !p.extension().map(|e| e == "rs").unwrap_or(false) {
            continue;
        }
        let Ok(src) = std::fs::read_to_string(p) else { continue };
        let mut rest = &src[..];
        let mut n = 0;
        while let Some(i) = rest.find("asn_to_rust!(") {
            rest = &rest[i + "asn_to_rust!(".len()..];
            let t = rest.trim_start();
            // raw string literal r"..." / r#"..."#
            if let Some(r) = t.strip_prefix('r') {
                let hashes = r.chars().take_while(|c| *c == '#').count();
                let r2 = &r[hashes..];
                if let Some(body) = r2.strip_prefix('"') {
                    let close = format!("\"{}", "#".repeat(hashes));
                    if let Some(end) = body.find(&close) {
                        add(&format!("repo-tests/{}#{}", p.file_stem().unwrap().to_str().unwrap(), n), &body[..end]);
                        n += 1;
                    }
                }
            }
        }
    }
    corpus.push_str("];\n");
    std::fs::write(Path::new(&std::env::var("OUT_DIR").unwrap()).join("corpus_gen.rs"), corpus).unwrap();
}
