// Shared build script of the zoo crates (each crate's build.rs is `include!("../zoo_build.rs");`).
// Generates `zoo_gen.rs` from the `../../zoo/<stem>.asn1` files listed in the crate's `FILES`: one Rust
// module per ASN.1 module (compiled by asn1rs itself through `asn_to_rust!`) plus `register()`, which
// appends the operation table of every type in file/definition order. The `.asn1` files are the single
// source; annotations are comments (`-- @proto @noproto @hostile @der @chain=..`, `-- @file: proto`).
use std::fmt::Write as _;
use std::path::Path;

fn main() {
    println!("cargo:rerun-if-changed=FILES");
    println!("cargo:rerun-if-changed=build.rs");
    println!("cargo:rerun-if-changed=../zoo_build.rs");
    let stems: Vec<String> = std::fs::read_to_string("FILES").expect("FILES").lines().map(|l| l.trim().to_string()).filter(|l| !l.is_empty() && !l.starts_with('#')).collect();
    let mut out = String::new();
    let mut reg = String::new();
    for stem in &stems {
        let path = format!("../../zoo/{stem}.asn1");
        println!("cargo:rerun-if-changed={path}");
        let text = std::fs::read_to_string(&path).unwrap_or_else(|e| panic!("{path}: {e}"));
        assert!(!text.contains("\"####"), "zoo text must not contain \"####");
        let module = text
            .lines()
            .find(|l| !l.trim_start().starts_with("--") && !l.trim().is_empty())
            .and_then(|l| l.split_whitespace().next())
            .unwrap()
            .to_string();
        let file_flags: Vec<String> = text
            .lines()
            .filter_map(|l| l.trim().strip_prefix("-- @file:"))
            .flat_map(|l| l.split_whitespace().map(str::to_string).collect::<Vec<_>>())
            .collect();
        let _ = writeln!(out, "#[allow(dead_code, unused, clippy::all)]\npub mod {} {{\n    use asn1rs::prelude::*;\n    asn_to_rust!(r####\"{}\"####);\n}}", stem, text);
        for line in text.lines() {
            let t = line.trim_start();
            let mut it = t.splitn(2, "::=");
            let (Some(name), Some(rest)) = (it.next(), it.next()) else { continue };
            let name = name.trim();
            if name.is_empty()
                || !name.chars().next().unwrap().is_ascii_uppercase()
                || !name.chars().all(|c| c.is_ascii_alphanumeric())
                || name == module
            {
                continue;
            }
            if t.contains("DEFINITIONS") {
                continue;
            }
            let mut flags: Vec<String> = file_flags.clone();
            if let Some(idx) = rest.rfind("--") {
                for tok in rest[idx + 2..].split_whitespace() {
                    if let Some(f) = tok.strip_prefix('@') {
                        flags.push(f.to_string());
                    }
                }
            }
            if flags.iter().any(|f| f == "noproto") {
                flags.retain(|f| f != "proto" && f != "noproto");
            }
            let _ = writeln!(reg, "    v.push(simcore::zoo_ops::ops::<{stem}::{name}>(\"{stem}.{name}\", {module:?}, &{flags:?}));");
        }
    }
    let _ = writeln!(out, "pub fn register(v: &mut Vec<simcore::zoo_ops::TypeOps>) {{\n{}}}", reg);
    let dest = Path::new(&std::env::var("OUT_DIR").unwrap()).join("zoo_gen.rs");
    std::fs::write(dest, out).unwrap();
}
