//! Part of the type zoo (see FILES and ../zoo_build.rs).
include!(concat!(env!("OUT_DIR"), "/zoo_gen.rs"));
