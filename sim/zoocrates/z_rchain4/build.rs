include!("../zoo_build.rs");
