//! The part of the simulator the zoo crates need: the choice tape, the generic value generator /
//! tree writer / tree reader / tracing bit source, the faulty I/O shims and the per-type operation
//! table. It is a crate of its own so that the zoo (several hundred generated types, each instantiating
//! all of this generic code) can be compiled as several crates in parallel (DESIGN 3).
pub mod choices;
pub mod gen;
pub mod io;
pub mod trace;
pub mod tree;
pub mod treeread;
pub mod zoo_ops;
