//! I/O shims (DESIGN 2.3): `FaultyRead` / `FaultyWrite` implement `std::io::{Read, Write}` over an
//! in-memory pipe and do everything a `Read`/`Write` may legally do. The whole behaviour is drawn
//! up-front into an `IoPlan`, so a shim never draws while the code under test runs.

use crate::choices::Lane;
use std::io::{Error, ErrorKind, Read, Result, Write};

#[derive(Debug, Clone, Default)]
pub struct IoPlan {
    /// cyclic: max bytes transferred per call (0 = as many as requested)  [IO-SHORT]
    pub chunks: Vec<usize>,
    /// cyclic: call returns Err(Interrupted) first  [IO-EINTR]; always contains a `false`
    pub eintr: Vec<bool>,
    /// hard error when the k-th byte (0-based) is requested / would be written  [IO-ERR@k, IO-CRASH@k]
    pub err_at: Option<(usize, ErrorKind)>,
    /// read: Ok(0) from byte k on  [IO-EOF@k]
    pub eof_at: Option<usize>,
    /// write: Ok(0) once k bytes were accepted  [IO-ZERO / IO-FULL(c)]
    pub zero_at: Option<usize>,
}

impl IoPlan {
    pub fn benign(lane: &mut Lane<'_>) -> IoPlan {
        let mut p = IoPlan::default();
        match lane.draw(4) {
            0 => {}
            1 => p.chunks = vec![1],
            2 => {
                let n = 1 + lane.draw(4) as usize;
                p.chunks = (0..n).map(|_| 1 + lane.draw(5) as usize).collect();
            }
            _ => {
                let n = 1 + lane.draw(3) as usize;
                p.chunks = (0..n).map(|_| lane.draw(4) as usize).collect();
            }
        }
        match lane.draw(4) {
            0 | 1 => {}
            2 => p.eintr = vec![true, false],
            _ => {
                let n = 2 + lane.draw(4) as usize;
                p.eintr = (0..n).map(|_| lane.draw(3) == 0).collect();
                let k = lane.draw(n as u64) as usize;
                p.eintr[k] = false;
            }
        }
        p
    }

    pub fn describe(&self) -> String {
        format!("chunks={:?} eintr={:?} err_at={:?} eof_at={:?} zero_at={:?}", self.chunks, self.eintr.iter().map(|b| *b as u8).collect::<Vec<_>>(), self.err_at, self.eof_at, self.zero_at)
    }
}

pub fn hard_error_kind(lane: &mut Lane<'_>) -> ErrorKind {
    match lane.draw(4) {
        0 => ErrorKind::BrokenPipe,
        1 => ErrorKind::Other,
        2 => ErrorKind::TimedOut,
        _ => ErrorKind::WouldBlock,
    }
}

#[derive(Default, Debug, Clone)]
pub struct IoStats {
    pub calls: u64,
    pub short: u64,
    pub eintr: u64,
    pub hard_err: u64,
    pub eof: u64,
    pub zero: u64,
}

pub struct FaultyRead {
    pub data: Vec<u8>,
    pub pos: usize,
    pub plan: IoPlan,
    pub stats: IoStats,
    /// the previous call returned Interrupted (never twice in a row, so retry loops terminate)
    interrupted_last: bool,
}

impl FaultyRead {
    pub fn new(data: Vec<u8>, plan: IoPlan) -> Self {
        FaultyRead { data, pos: 0, plan, stats: IoStats::default(), interrupted_last: false }
    }
}

impl Read for FaultyRead {
    fn read(&mut self, buf: &mut [u8]) -> Result<usize> {
        if buf.is_empty() {
            return Ok(0);
        }
        let call = self.stats.calls as usize;
        self.stats.calls += 1;
        if !self.plan.eintr.is_empty() && self.plan.eintr[call % self.plan.eintr.len()] && !self.interrupted_last {
            self.interrupted_last = true;
            self.stats.eintr += 1;
            return Err(Error::new(ErrorKind::Interrupted, "simulated EINTR"));
        }
        self.interrupted_last = false;
        if let Some((k, kind)) = self.plan.err_at {
            if self.pos >= k {
                self.stats.hard_err += 1;
                return Err(Error::new(kind, "simulated I/O error"));
            }
        }
        let end = self.plan.eof_at.map(|e| e.min(self.data.len())).unwrap_or(self.data.len());
        let mut avail = end.saturating_sub(self.pos);
        if let Some((k, _)) = self.plan.err_at {
            avail = avail.min(k.saturating_sub(self.pos));
        }
        if avail == 0 {
            self.stats.eof += 1;
            return Ok(0);
        }
        let mut n = buf.len().min(avail);
        if !self.plan.chunks.is_empty() {
            let c = self.plan.chunks[call % self.plan.chunks.len()];
            if c != 0 && c < n {
                n = c;
                self.stats.short += 1;
            }
        }
        buf[..n].copy_from_slice(&self.data[self.pos..self.pos + n]);
        self.pos += n;
        Ok(n)
    }
}

pub struct FaultyWrite {
    pub sink: Vec<u8>,
    pub plan: IoPlan,
    pub stats: IoStats,
    interrupted_last: bool,
}

impl FaultyWrite {
    pub fn new(plan: IoPlan) -> Self {
        FaultyWrite { sink: Vec::new(), plan, stats: IoStats::default(), interrupted_last: false }
    }
}

impl Write for FaultyWrite {
    fn write(&mut self, buf: &[u8]) -> Result<usize> {
        if buf.is_empty() {
            return Ok(0);
        }
        let call = self.stats.calls as usize;
        self.stats.calls += 1;
        if !self.plan.eintr.is_empty() && self.plan.eintr[call % self.plan.eintr.len()] && !self.interrupted_last {
            self.interrupted_last = true;
            self.stats.eintr += 1;
            return Err(Error::new(ErrorKind::Interrupted, "simulated EINTR"));
        }
        self.interrupted_last = false;
        let mut room = usize::MAX;
        if let Some((k, kind)) = self.plan.err_at {
            if self.sink.len() >= k {
                self.stats.hard_err += 1;
                return Err(Error::new(kind, "simulated I/O error / crash"));
            }
            room = room.min(k - self.sink.len());
        }
        if let Some(k) = self.plan.zero_at {
            if self.sink.len() >= k {
                self.stats.zero += 1;
                return Ok(0);
            }
            room = room.min(k - self.sink.len());
        }
        let mut n = buf.len().min(room);
        if !self.plan.chunks.is_empty() {
            let c = self.plan.chunks[call % self.plan.chunks.len()];
            if c != 0 && c < n {
                n = c;
                self.stats.short += 1;
            }
        }
        self.sink.extend_from_slice(&buf[..n]);
        Ok(n)
    }

    fn flush(&mut self) -> Result<()> {
        Ok(())
    }
}
