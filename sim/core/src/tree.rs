//! `TreeWriter`: a `descriptor::Writer` that records a type-independent value tree (DESIGN 3).

use asn1rs::descriptor::*;
use std::fmt::Write as _;

#[derive(Debug, Clone, PartialEq)]
pub enum Tree {
    Seq { name: &'static str, set: bool, ext_after: Option<u64>, fields: Vec<Tree> },
    List { set: bool, items: Vec<Tree> },
    Enum { name: &'static str, idx: u64, std: u64, count: u64, ext: bool },
    Choice { name: &'static str, idx: u64, std: u64, count: u64, ext: bool, content: Box<Tree> },
    Opt(Option<Box<Tree>>),
    /// `is_default`: the value equals DEFAULT_VALUE (the writer may omit it)
    Def { is_default: bool, value: Box<Tree> },
    Num { v: i64, min: Option<i64>, max: Option<i64>, ext: bool },
    Str { kind: StrKind, v: String },
    Octets(Vec<u8>),
    Bits(Vec<u8>, u64),
    Bool(bool),
    Null,
}

#[derive(Debug, Clone, Copy, PartialEq, Eq)]
pub enum StrKind {
    Utf8,
    Ia5,
    Numeric,
    Printable,
    Visible,
}

impl Tree {
    /// compact rendering for logs / replay files; long payloads are abbreviated
    pub fn render(&self) -> String {
        let mut s = String::new();
        self.render_into(&mut s, 0);
        s
    }

    fn render_into(&self, s: &mut String, depth: usize) {
        if s.len() > 2000 {
            if !s.ends_with('…') {
                s.push('…');
            }
            return;
        }
        match self {
            Tree::Seq { name, set, fields, .. } => {
                let _ = write!(s, "{}{}{{", if *set { "Set " } else { "" }, name);
                for (i, f) in fields.iter().enumerate() {
                    if i > 0 {
                        s.push_str(", ");
                    }
                    f.render_into(s, depth + 1);
                }
                s.push('}');
            }
            Tree::List { items, .. } => {
                let _ = write!(s, "[#{}", items.len());
                for (i, f) in items.iter().enumerate() {
                    if i >= 6 {
                        s.push_str(" …");
                        break;
                    }
                    s.push(' ');
                    f.render_into(s, depth + 1);
                }
                s.push(']');
            }
            Tree::Enum { name, idx, .. } => {
                let _ = write!(s, "{}#{}", name, idx);
            }
            Tree::Choice { name, idx, content, .. } => {
                let _ = write!(s, "{}#{}(", name, idx);
                content.render_into(s, depth + 1);
                s.push(')');
            }
            Tree::Opt(None) => s.push_str("None"),
            Tree::Opt(Some(v)) => {
                s.push_str("Some(");
                v.render_into(s, depth + 1);
                s.push(')');
            }
            Tree::Def { is_default, value } => {
                if *is_default {
                    s.push_str("dflt:");
                }
                value.render_into(s, depth + 1);
            }
            Tree::Num { v, .. } => {
                let _ = write!(s, "{}", v);
            }
            Tree::Str { v, .. } => {
                if v.chars().count() > 24 {
                    let head: String = v.chars().take(16).collect();
                    let _ = write!(s, "{:?}…(chars={})", head, v.chars().count());
                } else {
                    let _ = write!(s, "{:?}", v);
                }
            }
            Tree::Octets(v) => {
                s.push_str("x'");
                for b in v.iter().take(12) {
                    let _ = write!(s, "{:02x}", b);
                }
                if v.len() > 12 {
                    let _ = write!(s, "…(len={})", v.len());
                }
                s.push('\'');
            }
            Tree::Bits(v, n) => {
                s.push_str("b'");
                for b in v.iter().take(8) {
                    let _ = write!(s, "{:02x}", b);
                }
                let _ = write!(s, "'/{}", n);
            }
            Tree::Bool(b) => {
                let _ = write!(s, "{}", b);
            }
            Tree::Null => s.push_str("NULL"),
        }
    }

    pub fn hash(&self) -> u64 {
        let mut h = Fnv::new();
        self.hash_into(&mut h);
        h.0
    }

    fn hash_into(&self, h: &mut Fnv) {
        match self {
            Tree::Seq { fields, set, .. } => {
                h.u8(1 + *set as u8);
                h.u64(fields.len() as u64);
                for f in fields {
                    f.hash_into(h);
                }
            }
            Tree::List { items, set } => {
                h.u8(3 + *set as u8);
                h.u64(items.len() as u64);
                for f in items {
                    f.hash_into(h);
                }
            }
            Tree::Enum { idx, .. } => {
                h.u8(5);
                h.u64(*idx);
            }
            Tree::Choice { idx, content, .. } => {
                h.u8(6);
                h.u64(*idx);
                content.hash_into(h);
            }
            Tree::Opt(None) => h.u8(7),
            Tree::Opt(Some(v)) => {
                h.u8(8);
                v.hash_into(h);
            }
            Tree::Def { value, .. } => {
                h.u8(9);
                value.hash_into(h);
            }
            Tree::Num { v, .. } => {
                h.u8(10);
                h.u64(*v as u64);
            }
            Tree::Str { v, kind } => {
                h.u8(11);
                h.u8(*kind as u8);
                h.bytes(v.as_bytes());
            }
            Tree::Octets(v) => {
                h.u8(12);
                h.bytes(v);
            }
            Tree::Bits(v, n) => {
                h.u8(13);
                h.u64(*n);
                h.bytes(v);
            }
            Tree::Bool(b) => h.u8(14 + *b as u8),
            Tree::Null => h.u8(16),
        }
    }

    /// number of nodes
    pub fn size(&self) -> usize {
        match self {
            Tree::Seq { fields, .. } => 1 + fields.iter().map(Tree::size).sum::<usize>(),
            Tree::List { items, .. } => 1 + items.iter().map(Tree::size).sum::<usize>(),
            Tree::Choice { content, .. } => 1 + content.size(),
            Tree::Opt(Some(v)) => 1 + v.size(),
            Tree::Def { value, .. } => 1 + value.size(),
            _ => 1,
        }
    }

    /// visits every node
    pub fn walk<'a>(&'a self, f: &mut dyn FnMut(&'a Tree)) {
        f(self);
        match self {
            Tree::Seq { fields, .. } => fields.iter().for_each(|t| t.walk(f)),
            Tree::List { items, .. } => items.iter().for_each(|t| t.walk(f)),
            Tree::Choice { content, .. } => content.walk(f),
            Tree::Opt(Some(v)) => v.walk(f),
            Tree::Def { value, .. } => value.walk(f),
            _ => {}
        }
    }
}

pub struct Fnv(pub u64);
impl Fnv {
    pub fn new() -> Self {
        Fnv(0xcbf2_9ce4_8422_2325)
    }
    #[inline]
    pub fn u8(&mut self, b: u8) {
        self.0 ^= u64::from(b);
        self.0 = self.0.wrapping_mul(0x0000_0100_0000_01b3);
    }
    pub fn u64(&mut self, v: u64) {
        for b in v.to_le_bytes() {
            self.u8(b);
        }
    }
    pub fn bytes(&mut self, v: &[u8]) {
        self.u64(v.len() as u64);
        for b in v {
            self.u8(*b);
        }
    }
    pub fn str(&mut self, v: &str) {
        self.bytes(v.as_bytes());
    }
}

#[derive(Default)]
pub struct TreeWriter {
    stack: Vec<Vec<Tree>>,
    out: Vec<Tree>,
}

impl TreeWriter {
    pub fn tree_of<T: Writable>(value: &T) -> Tree {
        let mut w = TreeWriter::default();
        let _ = value.write(&mut w);
        w.out.pop().unwrap_or(Tree::Null)
    }

    fn emit(&mut self, t: Tree) {
        if let Some(top) = self.stack.last_mut() {
            top.push(t);
        } else {
            self.out.push(t);
        }
    }

    fn collect<F: FnOnce(&mut Self)>(&mut self, f: F) -> Vec<Tree> {
        self.stack.push(Vec::new());
        f(self);
        self.stack.pop().unwrap()
    }
}

#[derive(Debug)]
pub enum Never {}

impl Writer for TreeWriter {
    type Error = Never;

    fn write_sequence<C: sequence::Constraint, F: Fn(&mut Self) -> Result<(), Self::Error>>(
        &mut self,
        f: F,
    ) -> Result<(), Self::Error> {
        let fields = self.collect(|w| {
            let _ = f(w);
        });
        self.emit(Tree::Seq { name: C::NAME, set: false, ext_after: C::EXTENDED_AFTER_FIELD, fields });
        Ok(())
    }

    fn write_sequence_of<C: sequenceof::Constraint, T: WritableType>(
        &mut self,
        slice: &[T::Type],
    ) -> Result<(), Self::Error> {
        let items = self.collect(|w| {
            for v in slice {
                let _ = T::write_value(w, v);
            }
        });
        self.emit(Tree::List { set: false, items });
        Ok(())
    }

    fn write_set<C: set::Constraint, F: Fn(&mut Self) -> Result<(), Self::Error>>(
        &mut self,
        f: F,
    ) -> Result<(), Self::Error> {
        let fields = self.collect(|w| {
            let _ = f(w);
        });
        self.emit(Tree::Seq { name: C::NAME, set: true, ext_after: C::EXTENDED_AFTER_FIELD, fields });
        Ok(())
    }

    fn write_set_of<C: setof::Constraint, T: WritableType>(
        &mut self,
        slice: &[T::Type],
    ) -> Result<(), Self::Error> {
        let items = self.collect(|w| {
            for v in slice {
                let _ = T::write_value(w, v);
            }
        });
        self.emit(Tree::List { set: true, items });
        Ok(())
    }

    fn write_enumerated<C: enumerated::Constraint>(&mut self, e: &C) -> Result<(), Self::Error> {
        self.emit(Tree::Enum {
            name: C::NAME,
            idx: e.to_choice_index(),
            std: C::STD_VARIANT_COUNT,
            count: C::VARIANT_COUNT,
            ext: C::EXTENSIBLE,
        });
        Ok(())
    }

    fn write_choice<C: choice::Constraint>(&mut self, c: &C) -> Result<(), Self::Error> {
        let mut content = self.collect(|w| {
            let _ = c.write_content(w);
        });
        self.emit(Tree::Choice {
            name: C::NAME,
            idx: c.to_choice_index(),
            std: C::STD_VARIANT_COUNT,
            count: C::VARIANT_COUNT,
            ext: C::EXTENSIBLE,
            content: Box::new(content.pop().unwrap_or(Tree::Null)),
        });
        Ok(())
    }

    fn write_opt<T: WritableType>(&mut self, value: Option<&T::Type>) -> Result<(), Self::Error> {
        match value {
            None => self.emit(Tree::Opt(None)),
            Some(v) => {
                let mut c = self.collect(|w| {
                    let _ = T::write_value(w, v);
                });
                self.emit(Tree::Opt(Some(Box::new(c.pop().unwrap_or(Tree::Null)))));
            }
        }
        Ok(())
    }

    fn write_default<C: default::Constraint<Owned = T::Type>, T: WritableType>(
        &mut self,
        value: &T::Type,
    ) -> Result<(), Self::Error> {
        let is_default = C::DEFAULT_VALUE.eq(value);
        let mut c = self.collect(|w| {
            let _ = T::write_value(w, value);
        });
        self.emit(Tree::Def { is_default, value: Box::new(c.pop().unwrap_or(Tree::Null)) });
        Ok(())
    }

    fn write_number<T: numbers::Number, C: numbers::Constraint<T>>(
        &mut self,
        value: T,
    ) -> Result<(), Self::Error> {
        self.emit(Tree::Num { v: value.to_i64(), min: C::MIN, max: C::MAX, ext: C::EXTENSIBLE });
        Ok(())
    }

    fn write_utf8string<C: utf8string::Constraint>(&mut self, v: &str) -> Result<(), Self::Error> {
        self.emit(Tree::Str { kind: StrKind::Utf8, v: v.to_string() });
        Ok(())
    }

    fn write_ia5string<C: ia5string::Constraint>(&mut self, v: &str) -> Result<(), Self::Error> {
        self.emit(Tree::Str { kind: StrKind::Ia5, v: v.to_string() });
        Ok(())
    }

    fn write_numeric_string<C: numericstring::Constraint>(
        &mut self,
        v: &str,
    ) -> Result<(), Self::Error> {
        self.emit(Tree::Str { kind: StrKind::Numeric, v: v.to_string() });
        Ok(())
    }

    fn write_visible_string<C: visiblestring::Constraint>(
        &mut self,
        v: &str,
    ) -> Result<(), Self::Error> {
        self.emit(Tree::Str { kind: StrKind::Visible, v: v.to_string() });
        Ok(())
    }

    fn write_printable_string<C: printablestring::Constraint>(
        &mut self,
        v: &str,
    ) -> Result<(), Self::Error> {
        self.emit(Tree::Str { kind: StrKind::Printable, v: v.to_string() });
        Ok(())
    }

    fn write_octet_string<C: octetstring::Constraint>(&mut self, v: &[u8]) -> Result<(), Self::Error> {
        self.emit(Tree::Octets(v.to_vec()));
        Ok(())
    }

    fn write_bit_string<C: bitstring::Constraint>(
        &mut self,
        v: &[u8],
        bit_len: u64,
    ) -> Result<(), Self::Error> {
        self.emit(Tree::Bits(v.to_vec(), bit_len));
        Ok(())
    }

    fn write_boolean<C: boolean::Constraint>(&mut self, v: bool) -> Result<(), Self::Error> {
        self.emit(Tree::Bool(v));
        Ok(())
    }

    fn write_null<C: null::Constraint>(&mut self, _v: &Null) -> Result<(), Self::Error> {
        self.emit(Tree::Null);
        Ok(())
    }
}
