//! `TreeReader`: a `descriptor::Reader` that replays a value tree into another (usually newer) type.
//! Alignment is positional and recursive (DESIGN 3). Where the tree has nothing (appended extension
//! additions, new alternatives) the answer is "absent" or drawn from the tape through `GenReader`.

use crate::choices::Lane;
use crate::gen::{GenCfg, GenError, GenReader};
use crate::tree::{StrKind, Tree};
use asn1rs::descriptor::*;

#[derive(Clone, Copy, Debug, PartialEq, Eq)]
pub enum NewMode {
    /// everything the tree does not contain is absent / not selected
    AllAbsent,
    /// new additions, alternatives and values are drawn from the tape
    Draw,
}

#[derive(Clone, Copy, Debug)]
pub struct TreeReadCfg {
    pub mode: NewMode,
    pub gen: GenCfg,
}

#[derive(Debug)]
pub enum TreeReadError {
    /// the kind the type asks for differs from what the tree holds: harness error
    Mismatch(String),
    /// the tree selects an alternative / value the target type does not have
    Unrepresentable(&'static str, u64),
    Gen(GenError),
}

impl From<GenError> for TreeReadError {
    fn from(e: GenError) -> Self {
        TreeReadError::Gen(e)
    }
}

#[derive(Default, Debug, Clone)]
pub struct TreeReadStats {
    /// a CHOICE alternative or ENUMERATED value unknown to the source version was selected
    pub selected_unknown: u64,
    pub additions_drawn_present: u64,
    pub additions_new: u64,
}

enum Cursor<'t> {
    Single(Option<&'t Tree>),
    Items(&'t [Tree], usize),
    Fields {
        fields: &'t [Tree],
        next: usize,
        ext_after: Option<u64>,
        first_addition_present: Option<bool>,
    },
}

pub struct TreeReader<'t, 'a> {
    stack: Vec<Cursor<'t>>,
    gen: GenReader<'a>,
    cfg: TreeReadCfg,
    pub stats: TreeReadStats,
}

struct Taken<'t> {
    node: Option<&'t Tree>,
    /// this call is a field of a SEQUENCE/SET
    is_addition: bool,
    is_first_addition: bool,
    must_be_absent: bool,
}

impl<'t, 'a> TreeReader<'t, 'a> {
    pub fn build<T: Readable>(tree: &'t Tree, lane: Lane<'a>, cfg: TreeReadCfg) -> Result<T, TreeReadError> {
        Self::build_with_stats::<T>(tree, lane, cfg).map(|(v, _)| v)
    }

    pub fn build_with_stats<T: Readable>(
        tree: &'t Tree,
        lane: Lane<'a>,
        cfg: TreeReadCfg,
    ) -> Result<(T, TreeReadStats), TreeReadError> {
        let mut r = TreeReader {
            stack: vec![Cursor::Single(Some(tree))],
            gen: GenReader::new(lane, cfg.gen),
            cfg,
            stats: TreeReadStats::default(),
        };
        let v = T::read(&mut r)?;
        Ok((v, r.stats))
    }

    fn take(&mut self) -> Taken<'t> {
        match self.stack.last_mut() {
            None => Taken { node: None, is_addition: false, is_first_addition: false, must_be_absent: false },
            Some(Cursor::Single(n)) => Taken { node: n.take(), is_addition: false, is_first_addition: false, must_be_absent: false },
            Some(Cursor::Items(items, i)) => {
                let n = items.get(*i);
                *i += 1;
                Taken { node: n, is_addition: false, is_first_addition: false, must_be_absent: false }
            }
            Some(Cursor::Fields { fields, next, ext_after, first_addition_present }) => {
                let idx = *next as u64;
                let n = fields.get(*next);
                *next += 1;
                let is_addition = ext_after.map(|e| idx > e).unwrap_or(false);
                let is_first_addition = ext_after.map(|e| idx == e + 1).unwrap_or(false);
                Taken {
                    node: n,
                    is_addition,
                    is_first_addition,
                    must_be_absent: is_addition && *first_addition_present == Some(false),
                }
            }
        }
    }

    fn note_presence(&mut self, t: &Taken<'t>, present: bool) {
        if t.is_first_addition {
            if let Some(Cursor::Fields { first_addition_present, .. }) = self.stack.last_mut() {
                *first_addition_present = Some(present);
            }
        }
    }

    fn with<R>(&mut self, c: Cursor<'t>, f: impl FnOnce(&mut Self) -> R) -> R {
        self.stack.push(c);
        let r = f(self);
        self.stack.pop();
        r
    }

    fn mismatch<X>(&self, want: &str, got: &Tree) -> Result<X, TreeReadError> {
        Err(TreeReadError::Mismatch(format!("type asks for {want}, tree holds {}", got.render())))
    }

    /// presence of a component the tree knows nothing about
    fn new_presence(&mut self, t: &Taken<'t>) -> bool {
        self.stats.additions_new += 1;
        match self.cfg.mode {
            NewMode::AllAbsent => false,
            NewMode::Draw => {
                let p = self.gen.lane.draw(2) == 1;
                let p = p && !(self.cfg.gen.valid && t.must_be_absent);
                if p {
                    self.stats.additions_drawn_present += 1;
                }
                p
            }
        }
    }

    fn str_of(&mut self, kind: StrKind, want: &str) -> Result<Option<String>, TreeReadError> {
        let t = self.take();
        match t.node {
            Some(Tree::Str { kind: k, v }) if *k == kind => Ok(Some(v.clone())),
            Some(other) => self.mismatch(want, other),
            None => Ok(None),
        }
    }
}

impl<'t, 'a> Reader for TreeReader<'t, 'a> {
    type Error = TreeReadError;

    fn read_sequence<C: sequence::Constraint, S: Sized, F: Fn(&mut Self) -> Result<S, Self::Error>>(
        &mut self,
        f: F,
    ) -> Result<S, Self::Error> {
        let t = self.take();
        match t.node {
            Some(Tree::Seq { fields, .. }) => self.with(
                Cursor::Fields { fields, next: 0, ext_after: C::EXTENDED_AFTER_FIELD, first_addition_present: None },
                f,
            ),
            Some(other) => self.mismatch("SEQUENCE/SET", other),
            // a whole new structure: only reachable below a drawn addition, which is generated by GenReader
            None => self.with(
                Cursor::Fields { fields: &[], next: 0, ext_after: C::EXTENDED_AFTER_FIELD, first_addition_present: None },
                f,
            ),
        }
    }

    fn read_sequence_of<C: sequenceof::Constraint, T: ReadableType>(&mut self) -> Result<Vec<T::Type>, Self::Error> {
        let t = self.take();
        match t.node {
            Some(Tree::List { items, .. }) => self.with(Cursor::Items(items, 0), |r| {
                let mut v = Vec::with_capacity(items.len());
                for _ in 0..items.len() {
                    v.push(T::read_value(r)?);
                }
                Ok(v)
            }),
            Some(other) => self.mismatch("SEQUENCE OF/SET OF", other),
            None => Ok(self.gen.read_sequence_of::<C, T>()?),
        }
    }

    fn read_set<C: set::Constraint, S: Sized, F: Fn(&mut Self) -> Result<S, Self::Error>>(
        &mut self,
        f: F,
    ) -> Result<S, Self::Error> {
        self.read_sequence::<C, S, F>(f)
    }

    fn read_set_of<C: setof::Constraint, T: ReadableType>(&mut self) -> Result<Vec<T::Type>, Self::Error> {
        self.read_sequence_of::<C, T>()
    }

    fn read_enumerated<C: enumerated::Constraint>(&mut self) -> Result<C, Self::Error> {
        let t = self.take();
        match t.node {
            Some(Tree::Enum { idx, count, .. }) => {
                let mut idx = *idx;
                if self.cfg.mode == NewMode::Draw && C::VARIANT_COUNT > *count && self.gen.lane.draw(3) == 2 {
                    idx = *count + self.gen.lane.draw(C::VARIANT_COUNT - *count);
                    self.stats.selected_unknown += 1;
                }
                C::from_choice_index(idx).ok_or(TreeReadError::Unrepresentable(C::NAME, idx))
            }
            Some(other) => self.mismatch("ENUMERATED", other),
            None => Ok(self.gen.read_enumerated::<C>()?),
        }
    }

    fn read_choice<C: choice::Constraint>(&mut self) -> Result<C, Self::Error> {
        let t = self.take();
        match t.node {
            Some(Tree::Choice { idx, count, content, .. }) => {
                if self.cfg.mode == NewMode::Draw && C::VARIANT_COUNT > *count && self.gen.lane.draw(3) == 2 {
                    let idx2 = *count + self.gen.lane.draw(C::VARIANT_COUNT - *count);
                    self.stats.selected_unknown += 1;
                    return C::read_content(idx2, &mut self.gen)?.ok_or(TreeReadError::Unrepresentable(C::NAME, idx2));
                }
                let idx = *idx;
                let r = self.with(Cursor::Single(Some(content)), |r| C::read_content(idx, r))?;
                r.ok_or(TreeReadError::Unrepresentable(C::NAME, idx))
            }
            Some(other) => self.mismatch("CHOICE", other),
            None => Ok(self.gen.read_choice::<C>()?),
        }
    }

    fn read_opt<T: ReadableType>(&mut self) -> Result<Option<T::Type>, Self::Error> {
        let t = self.take();
        match t.node {
            Some(Tree::Opt(None)) => {
                self.note_presence(&t, false);
                Ok(None)
            }
            Some(Tree::Opt(Some(inner))) => {
                self.note_presence(&t, true);
                let v = self.with(Cursor::Single(Some(inner)), |r| T::read_value(r))?;
                Ok(Some(v))
            }
            Some(other) => self.mismatch("OPTIONAL", other),
            None => {
                let present = self.new_presence(&t);
                self.note_presence(&t, present);
                if present {
                    Ok(Some(T::read_value(&mut self.gen)?))
                } else {
                    Ok(None)
                }
            }
        }
    }

    fn read_default<C: default::Constraint<Owned = T::Type>, T: ReadableType>(&mut self) -> Result<T::Type, Self::Error> {
        let t = self.take();
        match t.node {
            Some(Tree::Def { value, is_default }) => {
                self.note_presence(&t, !*is_default);
                self.with(Cursor::Single(Some(value)), |r| T::read_value(r))
            }
            Some(other) => self.mismatch("DEFAULT", other),
            None => {
                let mut present = self.new_presence(&t);
                let mut v = C::DEFAULT_VALUE.to_owned();
                if present {
                    v = T::read_value(&mut self.gen)?;
                    if C::DEFAULT_VALUE.eq(&v) {
                        present = false;
                    }
                }
                self.note_presence(&t, present);
                Ok(v)
            }
        }
    }

    fn read_number<T: numbers::Number, C: numbers::Constraint<T>>(&mut self) -> Result<T, Self::Error> {
        let t = self.take();
        match t.node {
            Some(Tree::Num { v, .. }) => Ok(T::from_i64(*v)),
            Some(other) => self.mismatch("INTEGER", other),
            None => Ok(self.gen.read_number::<T, C>()?),
        }
    }

    fn read_utf8string<C: utf8string::Constraint>(&mut self) -> Result<String, Self::Error> {
        match self.str_of(StrKind::Utf8, "UTF8String")? {
            Some(s) => Ok(s),
            None => Ok(self.gen.read_utf8string::<C>()?),
        }
    }

    fn read_ia5string<C: ia5string::Constraint>(&mut self) -> Result<String, Self::Error> {
        match self.str_of(StrKind::Ia5, "IA5String")? {
            Some(s) => Ok(s),
            None => Ok(self.gen.read_ia5string::<C>()?),
        }
    }

    fn read_numeric_string<C: numericstring::Constraint>(&mut self) -> Result<String, Self::Error> {
        match self.str_of(StrKind::Numeric, "NumericString")? {
            Some(s) => Ok(s),
            None => Ok(self.gen.read_numeric_string::<C>()?),
        }
    }

    fn read_visible_string<C: visiblestring::Constraint>(&mut self) -> Result<String, Self::Error> {
        match self.str_of(StrKind::Visible, "VisibleString")? {
            Some(s) => Ok(s),
            None => Ok(self.gen.read_visible_string::<C>()?),
        }
    }

    fn read_printable_string<C: printablestring::Constraint>(&mut self) -> Result<String, Self::Error> {
        match self.str_of(StrKind::Printable, "PrintableString")? {
            Some(s) => Ok(s),
            None => Ok(self.gen.read_printable_string::<C>()?),
        }
    }

    fn read_octet_string<C: octetstring::Constraint>(&mut self) -> Result<Vec<u8>, Self::Error> {
        let t = self.take();
        match t.node {
            Some(Tree::Octets(v)) => Ok(v.clone()),
            Some(other) => self.mismatch("OCTET STRING", other),
            None => Ok(self.gen.read_octet_string::<C>()?),
        }
    }

    fn read_bit_string<C: bitstring::Constraint>(&mut self) -> Result<(Vec<u8>, u64), Self::Error> {
        let t = self.take();
        match t.node {
            Some(Tree::Bits(v, n)) => Ok((v.clone(), *n)),
            Some(other) => self.mismatch("BIT STRING", other),
            None => Ok(self.gen.read_bit_string::<C>()?),
        }
    }

    fn read_boolean<C: boolean::Constraint>(&mut self) -> Result<bool, Self::Error> {
        let t = self.take();
        match t.node {
            Some(Tree::Bool(b)) => Ok(*b),
            Some(other) => self.mismatch("BOOLEAN", other),
            None => Ok(self.gen.read_boolean::<C>()?),
        }
    }

    fn read_null<C: null::Constraint>(&mut self) -> Result<Null, Self::Error> {
        let t = self.take();
        match t.node {
            Some(Tree::Null) | None => Ok(Null),
            Some(other) => self.mismatch("NULL", other),
        }
    }
}
