//! Per-type operation table: monomorphised function pointers per generated type (DESIGN 3, 4).

use crate::choices::Lane;
use crate::gen::{GenCfg, GenReader, GenStats};
use crate::trace::TraceBits;
use crate::tree::{Tree, TreeWriter};
use crate::treeread::{TreeReadCfg, TreeReadError, TreeReadStats, TreeReader};
use asn1rs::prelude::*;
use asn1rs::protocol::per::Error as PerError;
use asn1rs::protocol::protobuf::Error as ProtoError;
use asn1rs::protocol::basic::Error as BasicError;
use crate::io::{FaultyRead, FaultyWrite};
use std::any::Any;
use std::fmt::Debug;


pub type Val = Box<dyn Any>;

pub const F_PROTO: u32 = 1;
pub const F_HOSTILE: u32 = 2;
pub const F_DER: u32 = 4;
pub const F_SENTINEL: u32 = 8;
pub const F_ZEROBIT: u32 = 16;
pub const F_CHAIN: u32 = 32;
/// the type has a list directly inside a list (protobuf read-back never terminates: D11)
pub const F_NESTED_LIST: u32 = 64;
/// the type has a list of unbounded count whose element can encode in zero bits: every fragment header
/// octet of a (corrupted) delivery legitimately stands for 65536 elements, so what a reader allocates is
/// not bounded by a small multiple of the input size for any correct decoder. These types take part in
/// the valid-value checks (C01, C05) but are not decoding targets of corrupted deliveries (C04, C19).
pub const F_ZEROAMP: u32 = 128;

pub struct TypeOps {
    pub name: &'static str,
    pub module: &'static str,
    pub flags: u32,
    /// `chain=<name>:<version>` annotation
    pub chain: Option<(String, u32)>,
    pub size_of: usize,
    pub gen: for<'a> fn(Lane<'a>, GenCfg) -> (Val, GenStats),
    pub tree: fn(&Val) -> Tree,
    pub eq: fn(&Val, &Val) -> bool,
    pub debug: fn(&Val) -> String,
    pub from_tree: for<'a> fn(&Tree, Lane<'a>, TreeReadCfg) -> Result<(Val, TreeReadStats), TreeReadError>,
    pub uper_write: fn(&Val, &mut UperWriter) -> Result<(), PerError>,
    pub uper_read: for<'a, 'b> fn(&'b mut UperReader<Bits<'a>>) -> Result<Val, PerError>,
    pub uper_read_traced: for<'a, 'b> fn(&'b mut UperReader<TraceBits<'a>>) -> Result<Val, PerError>,
    pub proto_write: for<'a, 'b> fn(&Val, &'b mut ProtobufWriter<'a>) -> Result<(), ProtoError>,
    pub proto_read: for<'a, 'b> fn(&'b mut ProtobufReader<'a>) -> Result<Val, ProtoError>,
    /// only meaningful for F_DER types (everything else is `todo!()` in rw/der.rs)
    pub der_write: for<'a, 'b> fn(&Val, &'b mut BasicWriter<&'a mut FaultyWrite>) -> Result<(), BasicError>,
    pub der_read: for<'a, 'b> fn(&'b mut BasicReader<&'a mut FaultyRead>) -> Result<Val, BasicError>,
}

fn down<T: 'static>(v: &Val) -> &T {
    v.downcast_ref::<T>().expect("zoo value of the wrong type (harness error)")
}

pub fn ops<T>(name: &'static str, module: &'static str, flags: &[&str]) -> TypeOps
where
    T: Readable + Writable + PartialEq + Debug + 'static,
{
    let mut bits = 0;
    let mut chain = None;
    for f in flags {
        match *f {
            "proto" => bits |= F_PROTO,
            "hostile" => bits |= F_HOSTILE,
            "der" => bits |= F_DER,
            "sentinel" => bits |= F_SENTINEL,
            "zerobit" => bits |= F_ZEROBIT,
            "nestedlist" => bits |= F_NESTED_LIST,
            "zeroamp" => bits |= F_ZEROAMP,
            other => {
                if let Some(rest) = other.strip_prefix("chain=") {
                    let mut it = rest.split(':');
                    let n = it.next().unwrap().to_string();
                    let v: u32 = it.next().unwrap().parse().unwrap();
                    chain = Some((n, v));
                    bits |= F_CHAIN;
                } else {
                    panic!("unknown zoo flag {other}");
                }
            }
        }
    }
    TypeOps {
        name,
        module,
        flags: bits,
        chain,
        size_of: std::mem::size_of::<T>(),
        gen: |lane, cfg| {
            let (v, s) = GenReader::generate::<T>(lane, cfg);
            (Box::new(v) as Val, s)
        },
        tree: |v| TreeWriter::tree_of(down::<T>(v)),
        eq: |a, b| down::<T>(a) == down::<T>(b),
        debug: |v| format!("{:?}", down::<T>(v)),
        from_tree: |t, lane, cfg| TreeReader::build_with_stats::<T>(t, lane, cfg).map(|(v, s)| (Box::new(v) as Val, s)),
        uper_write: |v, w| w.write(down::<T>(v)),
        uper_read: |r| r.read::<T>().map(|v| Box::new(v) as Val),
        uper_read_traced: |r| r.read::<T>().map(|v| Box::new(v) as Val),
        proto_write: |v, w| w.write(down::<T>(v)),
        proto_read: |r| r.read::<T>().map(|v| Box::new(v) as Val),
        der_write: |v, w| w.write(down::<T>(v)),
        der_read: |r| r.read::<T>().map(|v| Box::new(v) as Val),
    }
}

/// hand-written descriptor-level types: `Integer<T, NoConstraint>` and `Boolean<NoConstraint>` as the
/// repo's own DER tests use them
pub mod prim {
    use asn1rs::descriptor::numbers::Number;
    use asn1rs::descriptor::*;

    #[derive(Debug, PartialEq, Clone)]
    pub struct PBool(pub bool);
    impl Writable for PBool {
        fn write<W: Writer>(&self, w: &mut W) -> Result<(), W::Error> {
            Boolean::<boolean::NoConstraint>::write_value(w, &self.0)
        }
    }
    impl Readable for PBool {
        fn read<R: Reader>(r: &mut R) -> Result<Self, R::Error> {
            Boolean::<boolean::NoConstraint>::read_value(r).map(PBool)
        }
    }

    #[derive(Debug, PartialEq, Clone)]
    pub struct PInt<T: Number>(pub T);
    impl<T: Number> Writable for PInt<T> {
        fn write<W: Writer>(&self, w: &mut W) -> Result<(), W::Error> {
            Integer::<T, numbers::NoConstraint>::write_value(w, &self.0)
        }
    }
    impl<T: Number> Readable for PInt<T> {
        fn read<R: Reader>(r: &mut R) -> Result<Self, R::Error> {
            Integer::<T, numbers::NoConstraint>::read_value(r).map(PInt)
        }
    }
}
