//! `GenReader`: a `descriptor::Reader` whose input is the choice tape (DESIGN 3). It produces a value
//! of *any* generated type with no per-type code. 0 is always the simplest choice.

use crate::choices::Lane;
use asn1rs::descriptor::*;

#[derive(Clone, Copy, Debug)]
pub struct GenCfg {
    /// respect every constraint and only produce extension presence patterns the encoder accepts
    pub valid: bool,
    /// 0: tiny (0..3), 1: up to ~130 incl. 127/128, 2: large classes (16383/16384/…)
    pub size_class: u8,
    /// cap for element/character/bit counts of kinds that do NOT implement fragmentation
    /// (lists, restricted strings, bit strings) -- domain predicate of known findings D5/D6
    pub cap_unfragmented: u64,
    /// cap for octet strings / utf8 strings
    pub cap_fragmented: u64,
    /// soft budget for the number of generated nodes
    pub budget: i64,
    /// when set, extension additions are generated absent (used for projections in C05)
    pub additions_absent: bool,
}

impl GenCfg {
    pub fn small_valid() -> Self {
        GenCfg { valid: true, size_class: 0, cap_unfragmented: 16383, cap_fragmented: 70000, budget: 64, additions_absent: false }
    }
}

#[derive(Default, Debug, Clone)]
pub struct GenStats {
    pub nodes: u64,
    pub out_of_constraint: u64,
    pub illegal_char: u64,
    pub big_len: u64,
    pub additions_present: u64,
}

struct Frame {
    level: usize,
    next_field: u64,
    ext_after: Option<u64>,
    /// Some(false) once the first addition was generated absent
    first_addition_present: Option<bool>,
}

pub struct GenReader<'a> {
    pub lane: Lane<'a>,
    pub cfg: GenCfg,
    level: usize,
    frames: Vec<Frame>,
    budget: i64,
    pub stats: GenStats,
}

#[derive(Debug)]
pub enum GenError {
    /// the type asked for a choice/enum index it then refused
    NoVariant(&'static str, u64),
}

#[derive(Clone, Copy)]
struct FieldInfo {
    /// this call is an extension addition of the enclosing SEQUENCE/SET
    is_addition: bool,
    /// encoder would refuse presence here (first addition was absent)
    must_be_absent: bool,
    is_first_addition: bool,
}

impl<'a> GenReader<'a> {
    pub fn new(lane: Lane<'a>, cfg: GenCfg) -> Self {
        GenReader { lane, cfg, level: 0, frames: Vec::new(), budget: cfg.budget, stats: GenStats::default() }
    }

    pub fn generate<T: Readable>(lane: Lane<'a>, cfg: GenCfg) -> (T, GenStats) {
        let mut g = GenReader::new(lane, cfg);
        let v = T::read(&mut g).expect("GenReader cannot fail for a well-formed generated type");
        (v, g.stats)
    }

    fn enter(&mut self) -> Option<FieldInfo> {
        self.level += 1;
        self.stats.nodes += 1;
        self.budget -= 1;
        let level = self.level;
        if let Some(f) = self.frames.last_mut() {
            if f.level + 1 == level {
                let idx = f.next_field;
                f.next_field += 1;
                let is_addition = f.ext_after.map(|e| idx > e).unwrap_or(false);
                let is_first_addition = f.ext_after.map(|e| idx == e + 1).unwrap_or(false);
                let must_be_absent = is_addition && f.first_addition_present == Some(false);
                return Some(FieldInfo { is_addition, must_be_absent, is_first_addition });
            }
        }
        None
    }

    fn note_presence(&mut self, fi: Option<FieldInfo>, present: bool) {
        if let Some(fi) = fi {
            if fi.is_addition {
                if present {
                    self.stats.additions_present += 1;
                }
                if fi.is_first_addition {
                    if let Some(f) = self.frames.last_mut() {
                        f.first_addition_present = Some(present);
                    }
                }
            }
        }
    }

    fn leave(&mut self) {
        self.level -= 1;
    }

    /// presence decision of an OPTIONAL/DEFAULT component
    fn draw_presence(&mut self, fi: Option<FieldInfo>) -> bool {
        let mut present = self.lane.draw(2) == 1;
        if let Some(fi) = fi {
            if fi.is_addition {
                if self.cfg.additions_absent {
                    present = false;
                } else if self.cfg.valid && fi.must_be_absent {
                    present = false;
                }
            }
        }
        if self.budget <= 0 && !matches!(fi, Some(FieldInfo { is_addition: true, .. })) {
            present = false;
        }
        present
    }

    /// length within (or, in unrestricted mode / for extensible sizes, sometimes outside) [min,max]
    fn draw_len(&mut self, min: Option<u64>, max: Option<u64>, ext: bool, cap: u64) -> u64 {
        let lo = min.unwrap_or(0);
        let hi = max.unwrap_or(u64::MAX);
        if self.budget <= 0 {
            // budget exhausted (e.g. below a big list): the smallest admissible length, no draw
            return lo.min(cap.max(lo));
        }
        let class = self.lane.draw(16);
        let budget = self.budget.max(0) as u64;
        let mut len = match class {
            0..=7 => lo.saturating_add(self.lane.draw(4)),
            8..=10 => lo.saturating_add(self.lane.draw(20)),
            11 | 12 if self.cfg.size_class >= 1 => match self.lane.draw(6) {
                0 => 127,
                1 => 128,
                2 => 126,
                3 => 129,
                _ => lo.saturating_add(self.lane.draw(131)),
            },
            13 => {
                // around the upper bound
                if hi == u64::MAX {
                    lo.saturating_add(self.lane.draw(8))
                } else {
                    hi.saturating_sub(self.lane.draw(3))
                }
            }
            14 if self.cfg.size_class >= 2 => {
                self.stats.big_len += 1;
                match self.lane.draw(12) {
                    0 => 16383,
                    1 => 16384,
                    2 => 16385,
                    3 => 32767,
                    4 => 32768,
                    5 => 49152,
                    6 => 65535,
                    7 => 65536,
                    8 => 65537,
                    9 => 81920,
                    10 => 16384 + self.lane.draw(50000),
                    _ => 65536 + self.lane.draw(70000),
                }
            }
            15 => {
                // out of range on purpose (only kept when allowed below)
                if self.lane.draw(2) == 0 {
                    hi.saturating_add(1 + self.lane.draw(3))
                } else {
                    lo.saturating_sub(1 + self.lane.draw(2))
                }
            }
            _ => lo.saturating_add(self.lane.draw(3)),
        };
        let may_leave_range = if self.cfg.valid { ext } else { true };
        if !(may_leave_range && class == 15) {
            len = len.clamp(lo, hi);
        } else if len < lo || len > hi {
            self.stats.out_of_constraint += 1;
        }
        // budget / cap (never below a mandatory lower bound in valid mode)
        let soft = if class == 14 { cap } else { cap.min(budget.max(3) * 4) };
        if len > soft {
            len = soft;
            if self.cfg.valid && len < lo {
                len = lo.min(cap.max(lo));
            }
        }
        self.budget -= (len / 4) as i64;
        len
    }

    fn gen_string(&mut self, alphabet: &Alphabet, min: Option<u64>, max: Option<u64>, ext: bool, cap: u64) -> String {
        let len = self.draw_len(min, max, ext, cap);
        let mut s = String::with_capacity(len as usize);
        // whole-string mode: 0 => all the first character (cheap and simple)
        let mode = self.lane.draw(4);
        let inject_illegal = !self.cfg.valid && len > 0 && self.lane.draw(16) == 15;
        let illegal_at = if inject_illegal { self.lane.draw(len) } else { u64::MAX };
        for i in 0..len {
            let c = if i == illegal_at {
                self.stats.illegal_char += 1;
                alphabet.illegal()
            } else if mode == 0 || (i >= 64 && mode != 3) {
                alphabet.at(i % alphabet.len())
            } else {
                let k = self.lane.draw(alphabet.len());
                alphabet.at(k)
            };
            s.push(c);
        }
        s
    }
}

pub enum Alphabet {
    Str(&'static str),
    Ia5,
    Utf8,
}

const UTF8_POOL: &[char] = &[
    'a', 'Z', '0', ' ', '\u{0}', '\u{7f}', 'ä', 'ß', 'é', '\u{7ff}', '\u{800}', '€', '\u{ffff}', '😀', '\u{10ffff}', '\n',
];

impl Alphabet {
    fn len(&self) -> u64 {
        match self {
            Alphabet::Str(s) => s.len() as u64,
            Alphabet::Ia5 => 128,
            Alphabet::Utf8 => UTF8_POOL.len() as u64,
        }
    }
    fn at(&self, i: u64) -> char {
        match self {
            Alphabet::Str(s) => s.as_bytes()[i as usize] as char,
            Alphabet::Ia5 => (i as u8) as char,
            Alphabet::Utf8 => UTF8_POOL[i as usize],
        }
    }
    fn illegal(&self) -> char {
        match self {
            Alphabet::Str(s) if s.len() == 11 => 'a',
            Alphabet::Str(s) if s.len() == 74 => '*',
            Alphabet::Str(_) => '\u{7f}',
            Alphabet::Ia5 => 'ä',
            Alphabet::Utf8 => 'x',
        }
    }
}

const NUMERIC: &str = " 0123456789";
const PRINTABLE: &str = " '()+,-./0123456789:=?ABCDEFGHIJKLMNOPQRSTUVWXYZabcdefghijklmnopqrstuvwxyz";
const VISIBLE: &str = " !\"#$%&'()*+,-./0123456789:;<=>?@ABCDEFGHIJKLMNOPQRSTUVWXYZ[\\]^_`abcdefghijklmnopqrstuvwxyz{|}~";

/// (min, max, is_u64) of the Rust integer type behind `T`
pub fn type_range<T: numbers::Number>() -> (i128, i128) {
    let name = std::any::type_name::<T>();
    match name {
        "u8" => (0, u8::MAX as i128),
        "u16" => (0, u16::MAX as i128),
        "u32" => (0, u32::MAX as i128),
        "u64" => (0, u64::MAX as i128),
        "i8" => (i8::MIN as i128, i8::MAX as i128),
        "i16" => (i16::MIN as i128, i16::MAX as i128),
        "i32" => (i32::MIN as i128, i32::MAX as i128),
        _ => (i64::MIN as i128, i64::MAX as i128),
    }
}

impl<'a> Reader for GenReader<'a> {
    type Error = GenError;

    fn read_sequence<C: sequence::Constraint, S: Sized, F: Fn(&mut Self) -> Result<S, Self::Error>>(
        &mut self,
        f: F,
    ) -> Result<S, Self::Error> {
        let _ = self.enter();
        self.frames.push(Frame {
            level: self.level,
            next_field: 0,
            ext_after: C::EXTENDED_AFTER_FIELD,
            first_addition_present: None,
        });
        let r = f(self);
        self.frames.pop();
        self.leave();
        r
    }

    fn read_sequence_of<C: sequenceof::Constraint, T: ReadableType>(
        &mut self,
    ) -> Result<Vec<T::Type>, Self::Error> {
        let _ = self.enter();
        let len = self.draw_len(C::MIN, C::MAX, C::EXTENSIBLE, self.cfg.cap_unfragmented);
        let mut v = Vec::with_capacity(len as usize);
        for _ in 0..len {
            v.push(T::read_value(self)?);
        }
        self.leave();
        Ok(v)
    }

    fn read_set<C: set::Constraint, S: Sized, F: Fn(&mut Self) -> Result<S, Self::Error>>(
        &mut self,
        f: F,
    ) -> Result<S, Self::Error> {
        self.read_sequence::<C, S, F>(f)
    }

    fn read_set_of<C: setof::Constraint, T: ReadableType>(
        &mut self,
    ) -> Result<Vec<T::Type>, Self::Error> {
        self.read_sequence_of::<C, T>()
    }

    fn read_enumerated<C: enumerated::Constraint>(&mut self) -> Result<C, Self::Error> {
        let _ = self.enter();
        let idx = self.lane.draw(C::VARIANT_COUNT);
        self.leave();
        C::from_choice_index(idx).ok_or(GenError::NoVariant(C::NAME, idx))
    }

    fn read_choice<C: choice::Constraint>(&mut self) -> Result<C, Self::Error> {
        let _ = self.enter();
        let idx = self.lane.draw(C::VARIANT_COUNT);
        let r = C::read_content(idx, self)?;
        self.leave();
        r.ok_or(GenError::NoVariant(C::NAME, idx))
    }

    fn read_opt<T: ReadableType>(&mut self) -> Result<Option<T::Type>, Self::Error> {
        let fi = self.enter();
        let present = self.draw_presence(fi);
        self.note_presence(fi, present);
        let r = if present { Some(T::read_value(self)?) } else { None };
        self.leave();
        Ok(r)
    }

    fn read_default<C: default::Constraint<Owned = T::Type>, T: ReadableType>(
        &mut self,
    ) -> Result<T::Type, Self::Error> {
        let fi = self.enter();
        let mut present = self.draw_presence(fi);
        let mut value = if present { T::read_value(self)? } else { C::DEFAULT_VALUE.to_owned() };
        if present && C::DEFAULT_VALUE.eq(&value) {
            // generated value coincides with the default: the encoder will omit it
            present = false;
        }
        if !present {
            value = C::DEFAULT_VALUE.to_owned();
        }
        self.note_presence(fi, present);
        self.leave();
        Ok(value)
    }

    fn read_number<T: numbers::Number, C: numbers::Constraint<T>>(&mut self) -> Result<T, Self::Error> {
        let _ = self.enter();
        let (tmin, tmax) = type_range::<T>();
        let cmin = C::MIN.map(i128::from).unwrap_or(tmin).max(tmin);
        let cmax = C::MAX.map(i128::from).unwrap_or(tmax).min(tmax);
        let (cmin, cmax) = if cmin <= cmax { (cmin, cmax) } else { (tmin, tmax) };
        let leave_range = if self.cfg.valid { C::EXTENSIBLE } else { true };
        let class = self.lane.draw(12);
        let mut v: i128 = match class {
            0 => cmin,
            1 => cmax,
            2 => cmin + 1,
            3 => cmax - 1,
            4 | 5 => {
                // powers of two +-1 inside the range, relative to the lower bound (bit-width boundaries)
                let span = (cmax - cmin).max(1) as u128;
                let bits = 128 - span.leading_zeros() as u64;
                let k = self.lane.draw(bits.max(1));
                let p = 1i128 << k.min(100);
                let d = self.lane.draw(3) as i128 - 1;
                cmin + p + d
            }
            6 => 0,
            7 => -1,
            8 if leave_range => {
                // outside the constraint but inside the Rust type
                match self.lane.draw(6) {
                    0 => cmax + 1,
                    1 => cmin - 1,
                    2 => tmax,
                    3 => tmin,
                    4 => cmax + 1 + self.lane.draw(1000) as i128,
                    _ => cmin - 1 - self.lane.draw(1000) as i128,
                }
            }
            _ => {
                let span = (cmax - cmin) as u128;
                let r = ((self.lane.draw(u64::MAX) as u128) << 64 | self.lane.draw(u64::MAX) as u128) % (span + 1);
                cmin + r as i128
            }
        };
        if class == 8 && leave_range {
            v = v.clamp(tmin, tmax);
            if v < cmin || v > cmax {
                self.stats.out_of_constraint += 1;
            }
        } else {
            v = v.clamp(cmin, cmax);
        }
        self.leave();
        Ok(T::from_i64(v as u64 as i64))
    }

    fn read_utf8string<C: utf8string::Constraint>(&mut self) -> Result<String, Self::Error> {
        let _ = self.enter();
        let cap = self.cfg.cap_fragmented / 4;
        let s = self.gen_string(&Alphabet::Utf8, C::MIN, C::MAX, C::EXTENSIBLE, cap);
        self.leave();
        Ok(s)
    }

    fn read_ia5string<C: ia5string::Constraint>(&mut self) -> Result<String, Self::Error> {
        let _ = self.enter();
        let s = self.gen_string(&Alphabet::Ia5, C::MIN, C::MAX, C::EXTENSIBLE, self.cfg.cap_unfragmented);
        self.leave();
        Ok(s)
    }

    fn read_numeric_string<C: numericstring::Constraint>(&mut self) -> Result<String, Self::Error> {
        let _ = self.enter();
        let s = self.gen_string(&Alphabet::Str(NUMERIC), C::MIN, C::MAX, C::EXTENSIBLE, self.cfg.cap_unfragmented);
        self.leave();
        Ok(s)
    }

    fn read_visible_string<C: visiblestring::Constraint>(&mut self) -> Result<String, Self::Error> {
        let _ = self.enter();
        let s = self.gen_string(&Alphabet::Str(VISIBLE), C::MIN, C::MAX, C::EXTENSIBLE, self.cfg.cap_unfragmented);
        self.leave();
        Ok(s)
    }

    fn read_printable_string<C: printablestring::Constraint>(&mut self) -> Result<String, Self::Error> {
        let _ = self.enter();
        let s = self.gen_string(&Alphabet::Str(PRINTABLE), C::MIN, C::MAX, C::EXTENSIBLE, self.cfg.cap_unfragmented);
        self.leave();
        Ok(s)
    }

    fn read_octet_string<C: octetstring::Constraint>(&mut self) -> Result<Vec<u8>, Self::Error> {
        let _ = self.enter();
        let len = self.draw_len(C::MIN, C::MAX, C::EXTENSIBLE, self.cfg.cap_fragmented);
        let fill = self.lane.draw(4);
        let mut v = Vec::with_capacity(len as usize);
        for i in 0..len {
            v.push(match fill {
                0 => 0x00,
                1 => 0xff,
                2 => i as u8,
                _ => {
                    if i < 32 {
                        self.lane.draw(256) as u8
                    } else {
                        (i as u8).wrapping_mul(37)
                    }
                }
            });
        }
        self.leave();
        Ok(v)
    }

    fn read_bit_string<C: bitstring::Constraint>(&mut self) -> Result<(Vec<u8>, u64), Self::Error> {
        let _ = self.enter();
        let bits = self.draw_len(C::MIN, C::MAX, C::EXTENSIBLE, self.cfg.cap_unfragmented);
        let bytes = ((bits + 7) / 8) as usize;
        let fill = self.lane.draw(3);
        let mut v = Vec::with_capacity(bytes);
        for i in 0..bytes {
            v.push(match fill {
                0 => 0x00,
                1 => 0xff,
                _ => {
                    if i < 16 {
                        self.lane.draw(256) as u8
                    } else {
                        (i as u8).wrapping_mul(29)
                    }
                }
            });
        }
        // canonical BitVec as the public constructors build it: zero padding bits
        if bits % 8 != 0 {
            if let Some(last) = v.last_mut() {
                *last &= !(0xffu8 >> (bits % 8));
            }
        }
        self.leave();
        Ok((v, bits))
    }

    fn read_boolean<C: boolean::Constraint>(&mut self) -> Result<bool, Self::Error> {
        let _ = self.enter();
        let b = self.lane.draw(2) == 1;
        self.leave();
        Ok(b)
    }

    fn read_null<C: null::Constraint>(&mut self) -> Result<Null, Self::Error> {
        let _ = self.enter();
        self.leave();
        Ok(Null)
    }
}
