//! The choice tape: the single source of every decision a run takes (DESIGN 2.1).
//!
//! A run is a pure function of (property, knobs, tape, code under test). In `Rng` mode each lane owns
//! a xoshiro256** generator seeded from (seed, property, run index, lane) and records what it returned;
//! in `Replay` mode the recorded lanes are played back (`v % bound`, `0` once exhausted). Generators
//! are written so that 0 is always the simplest choice, which makes generic tape shrinking work.

pub const MAX_LANES: usize = 8;

#[derive(Clone)]
struct Xoshiro([u64; 4]);

fn splitmix(x: &mut u64) -> u64 {
    *x = x.wrapping_add(0x9E37_79B9_7F4A_7C15);
    let mut z = *x;
    z = (z ^ (z >> 30)).wrapping_mul(0xBF58_476D_1CE4_E5B9);
    z = (z ^ (z >> 27)).wrapping_mul(0x94D0_49BB_1331_11EB);
    z ^ (z >> 31)
}

impl Xoshiro {
    fn new(mut seed: u64) -> Self {
        let mut s = [0u64; 4];
        for v in s.iter_mut() {
            *v = splitmix(&mut seed);
        }
        Xoshiro(s)
    }
    fn next(&mut self) -> u64 {
        let s = &mut self.0;
        let result = s[1].wrapping_mul(5).rotate_left(7).wrapping_mul(9);
        let t = s[1] << 17;
        s[2] ^= s[0];
        s[3] ^= s[1];
        s[1] ^= s[2];
        s[0] ^= s[3];
        s[2] ^= t;
        s[3] = s[3].rotate_left(45);
        result
    }
}

pub fn fnv1a(bytes: &[u8]) -> u64 {
    let mut h: u64 = 0xcbf2_9ce4_8422_2325;
    for b in bytes {
        h ^= u64::from(*b);
        h = h.wrapping_mul(0x0000_0100_0000_01b3);
    }
    h
}

pub fn mix(a: u64, b: u64) -> u64 {
    let mut x = a ^ b.wrapping_mul(0x9E37_79B9_7F4A_7C15).rotate_left(23);
    splitmix(&mut x)
}

enum Mode {
    Rng(Vec<Xoshiro>),
    Replay,
}

pub struct Choices {
    mode: Mode,
    /// recorded (Rng) or given (Replay) values, per lane
    pub lanes: Vec<Vec<u64>>,
    cursor: Vec<usize>,
    /// total number of draws (a run is aborted as "too long" by callers if they want, never here)
    pub draws: u64,
}

impl Choices {
    pub fn from_seed(seed: u64, prop: &str, run: u64) -> Self {
        let base = mix(mix(seed, fnv1a(prop.as_bytes())), run);
        let gens = (0..MAX_LANES as u64).map(|l| Xoshiro::new(mix(base, l))).collect();
        Choices {
            mode: Mode::Rng(gens),
            lanes: vec![Vec::new(); MAX_LANES],
            cursor: vec![0; MAX_LANES],
            draws: 0,
        }
    }

    /// The first `n` raw PRNG outputs of every lane of run (seed, prop, run). Replaying it (`v % bound`)
    /// reproduces the run exactly as long as it draws at most `n` values per lane. This is how the tape
    /// of a run whose process died (abort, stack overflow, hang) is obtained without executing it.
    pub fn raw_tape_from_seed(seed: u64, prop: &str, run: u64, n: usize) -> Vec<Vec<u64>> {
        let base = mix(mix(seed, fnv1a(prop.as_bytes())), run);
        (0..MAX_LANES as u64)
            .map(|l| {
                let mut g = Xoshiro::new(mix(base, l));
                (0..n).map(|_| g.next()).collect()
            })
            .collect()
    }

    pub fn from_tape(mut lanes: Vec<Vec<u64>>) -> Self {
        lanes.resize(MAX_LANES, Vec::new());
        Choices {
            mode: Mode::Replay,
            cursor: vec![0; MAX_LANES],
            lanes,
            draws: 0,
        }
    }

    /// value in `[0, bound)`; `bound == 0` is treated as 1
    #[inline]
    pub fn draw(&mut self, lane: usize, bound: u64) -> u64 {
        let bound = bound.max(1);
        self.draws += 1;
        match &mut self.mode {
            Mode::Rng(gens) => {
                // every draw consumes exactly one PRNG output (also for bound 1), so the raw output
                // stream of a lane is a valid tape of the run: see `raw_tape_from_seed`
                let v = gens[lane].next() % bound;
                self.lanes[lane].push(v);
                v
            }
            Mode::Replay => {
                let c = self.cursor[lane];
                self.cursor[lane] += 1;
                self.lanes[lane].get(c).copied().unwrap_or(0) % bound
            }
        }
    }

    /// true with probability num/den (0 => false is the simple choice)
    #[inline]
    pub fn chance(&mut self, lane: usize, num: u64, den: u64) -> bool {
        self.draw(lane, den) >= den - num.min(den) && num > 0
    }

    /// the lanes as consumed so far (Replay: the prefix that was actually read)
    pub fn consumed(&self) -> Vec<Vec<u64>> {
        match self.mode {
            Mode::Rng(_) => self.lanes.clone(),
            Mode::Replay => self
                .lanes
                .iter()
                .zip(&self.cursor)
                .map(|(l, c)| l[..(*c).min(l.len())].to_vec())
                .collect(),
        }
    }
}

/// A handle that binds a lane, so generators need not know about lanes.
pub struct Lane<'a> {
    pub ch: &'a mut Choices,
    pub lane: usize,
}

impl<'a> Lane<'a> {
    pub fn new(ch: &'a mut Choices, lane: usize) -> Self {
        Lane { ch, lane }
    }
    #[inline]
    pub fn draw(&mut self, bound: u64) -> u64 {
        self.ch.draw(self.lane, bound)
    }
    #[inline]
    pub fn chance(&mut self, num: u64, den: u64) -> bool {
        self.ch.chance(self.lane, num, den)
    }
    /// inclusive range
    #[inline]
    pub fn range(&mut self, lo: u64, hi: u64) -> u64 {
        if hi <= lo {
            lo
        } else {
            lo + self.draw(hi - lo + 1)
        }
    }
    pub fn reborrow(&mut self) -> Lane<'_> {
        Lane { ch: self.ch, lane: self.lane }
    }
}
