//! `TraceBits`: delegates every call to the real `Bits` and records where primitive reads happened.
//! Used only for a clean tracing pass that tells the fault process where the structurally
//! interesting bits (flags, indices, length determinants) are (DESIGN 2.3).

use asn1rs::prelude::{Bits, ScopedBitRead};
use asn1rs::protocol::per::unaligned::BitRead;
use asn1rs::protocol::per::Error;
use std::cell::RefCell;
use std::rc::Rc;

#[derive(Default, Debug)]
pub struct Trace {
    /// (start bit, bit count) of every primitive read
    pub reads: Vec<(usize, usize)>,
    /// targets of set_pos jumps
    pub jumps: Vec<usize>,
}

pub struct TraceBits<'a> {
    inner: Bits<'a>,
    pub trace: Rc<RefCell<Trace>>,
}

impl<'a> TraceBits<'a> {
    pub fn new(inner: Bits<'a>) -> (Self, Rc<RefCell<Trace>>) {
        let trace = Rc::new(RefCell::new(Trace::default()));
        (TraceBits { inner, trace: trace.clone() }, trace)
    }

    fn rec(&self, start: usize, n: usize) {
        let mut t = self.trace.borrow_mut();
        if t.reads.len() < 100_000 {
            t.reads.push((start, n));
        }
    }
}

impl BitRead for TraceBits<'_> {
    fn read_bit(&mut self) -> Result<bool, Error> {
        let p = self.inner.pos();
        let r = self.inner.read_bit();
        if r.is_ok() {
            self.rec(p, 1);
        }
        r
    }

    fn read_bits(&mut self, dst: &mut [u8]) -> Result<(), Error> {
        let p = self.inner.pos();
        let r = self.inner.read_bits(dst);
        if r.is_ok() {
            self.rec(p, dst.len() * 8);
        }
        r
    }

    fn read_bits_with_offset(&mut self, dst: &mut [u8], dst_bit_offset: usize) -> Result<(), Error> {
        let p = self.inner.pos();
        let r = self.inner.read_bits_with_offset(dst, dst_bit_offset);
        if r.is_ok() {
            self.rec(p, (dst.len() * 8).saturating_sub(dst_bit_offset));
        }
        r
    }

    fn read_bits_with_len(&mut self, dst: &mut [u8], dst_bit_len: usize) -> Result<(), Error> {
        let p = self.inner.pos();
        let r = self.inner.read_bits_with_len(dst, dst_bit_len);
        if r.is_ok() {
            self.rec(p, dst_bit_len);
        }
        r
    }

    fn read_bits_with_offset_len(
        &mut self,
        dst: &mut [u8],
        dst_bit_offset: usize,
        dst_bit_len: usize,
    ) -> Result<(), Error> {
        let p = self.inner.pos();
        let r = self.inner.read_bits_with_offset_len(dst, dst_bit_offset, dst_bit_len);
        if r.is_ok() {
            self.rec(p, dst_bit_len);
        }
        r
    }
}

impl ScopedBitRead for TraceBits<'_> {
    fn pos(&self) -> usize {
        self.inner.pos()
    }
    fn set_pos(&mut self, position: usize) -> usize {
        let mut t = self.trace.borrow_mut();
        if t.jumps.len() < 100_000 {
            t.jumps.push(position);
        }
        drop(t);
        self.inner.set_pos(position)
    }
    fn len(&self) -> usize {
        self.inner.len()
    }
    fn set_len(&mut self, len: usize) -> usize {
        self.inner.set_len(len)
    }
    fn remaining(&self) -> usize {
        self.inner.remaining()
    }
}
