#!/bin/sh
# MANIFEST setup_cmd: builds every harness binary offline from files on disk only.
set -e
cd "$(dirname "$0")"
export CARGO_NET_OFFLINE=true
./check build
echo "setup ok"
