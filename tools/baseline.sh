#!/bin/sh
# runs the repository's own suite (guard off: there is no hook) and compares with the pinned baseline:
# 312 passing tests, exactly the 3 always-failing walker tests failing.
cd "${1:-/repo}" || exit 2
out=$(CARGO_NET_OFFLINE=true cargo test --workspace --no-fail-fast --offline 2>&1)
ok=$(printf '%s\n' "$out" | grep -cE '^test .* \.\.\. ok$')
failed=$(printf '%s\n' "$out" | grep -E '^test .* \.\.\. FAILED$' | sort)
nf=$(printf '%s\n' "$failed" | grep -c FAILED)
unexpected=$(printf '%s\n' "$failed" | grep -v 'generate::walker::tests::test_' | grep -c FAILED)
echo "passed=$ok failed=$nf unexpected_failures=$unexpected"
if [ "$ok" -ge 312 ] && [ "$unexpected" -eq 0 ]; then echo "BASELINE OK"; exit 0; fi
printf '%s\n' "$failed"
echo "BASELINE MISMATCH"; exit 1
