#!/usr/bin/env python3
"""Confirms a seeded change kept under /verif/seeded/<id>/ and runs the checks against it.

For every selected directory: (1) the repository suite with the change (must pass: baseline),
(2) the demonstration without the change (must pass) and with it (must fail), (3) the quick check(s)
of the property it breaks with the change applied to /repo, (4) `git -C /repo checkout -- .` and removal
of the demo. Writes/updates meta.json in the directory. Never commits anything to /repo.

usage: tools/run_seeded.py [id-substring ...]      (DEMO=0 skips step 2, SUITE=0 skips step 1)
"""
import json, os, shutil, subprocess, sys, time

ROOT = os.path.dirname(os.path.dirname(os.path.abspath(__file__)))
REPO = "/repo"

# where the demo goes and how it is run: (destination relative to /repo, [commands]); a command is
# (cmd, expectation with the change) where expectation is "fail" or "pass"
DEMOS = {
    "default": ("tests/seeded_demo.rs", [("cargo test --offline --test seeded_demo", "fail")]),
    "C12": ("asn1rs-model/tests/seeded_demo.rs", [("cargo test --offline -p asn1rs-model --test seeded_demo", "fail")]),
    "C14": ("asn1rs-model/tests/seeded_demo.rs", [("cargo test --offline -p asn1rs-model --features protobuf --test seeded_demo", "fail")]),
    "C17": ("tests/seeded_demo.rs", [("cargo test --offline --features protobuf --test seeded_demo", "fail")]),
    "C04-agent2": ("tests/seeded_demo.rs", [("cargo test --offline --features protobuf --test seeded_demo", "fail")]),
    "C04-agent8": ("tests/seeded_demo.rs", [("cargo test --offline --features protobuf --test seeded_demo", "fail")]),
    "C19": ("tests/seeded_demo.rs", [("cargo test --offline --test seeded_demo", "pass"), ("cargo test --offline --features descriptive-deserialize-errors --test seeded_demo", "fail")]),
}


def sh(cmd, cwd=None, timeout=3600):
    env = dict(os.environ, CARGO_NET_OFFLINE="true")
    p = subprocess.run(cmd, shell=True, cwd=cwd, stdout=subprocess.PIPE, stderr=subprocess.STDOUT, text=True, timeout=timeout, env=env)
    return p.returncode, p.stdout


def clean_repo():
    sh("git checkout -- .", cwd=REPO)
    for p in ["tests/seeded_demo.rs", "asn1rs-model/tests/seeded_demo.rs"]:
        fp = os.path.join(REPO, p)
        if os.path.exists(fp):
            os.remove(fp)
    d = os.path.join(REPO, "asn1rs-model/tests")
    if os.path.isdir(d) and not os.listdir(d):
        os.rmdir(d)


def main():
    sel = sys.argv[1:]
    rc, st = sh("git status --porcelain", cwd=REPO)
    if st.strip():
        print("refusing: /repo has uncommitted changes:\n" + st)
        return 2
    base = os.path.join(ROOT, "seeded")
    for name in sorted(os.listdir(base)):
        d = os.path.join(base, name)
        if not os.path.isdir(d) or (sel and not any(s in name for s in sel)):
            continue
        patch = os.path.join(d, "patch.diff")
        if not os.path.exists(patch):
            continue
        meta_path = os.path.join(d, "meta.json")
        meta = json.load(open(meta_path)) if os.path.exists(meta_path) else {}
        prop = meta.get("property") or name.split("-")[0]
        props = meta.get("checks_run_against") or [prop]
        meta.update(property=prop)
        t0 = time.time()
        try:
            head = sh("git rev-parse --short HEAD", cwd=REPO)[1].strip()
            rc, out = sh(f"git apply --check {patch}", cwd=REPO)
            if rc != 0:
                print(f"{name}: patch does not apply on {head}: {out.strip()[:200]}")
                meta["applies_on"] = {"commit": head, "ok": False}
                json.dump(meta, open(meta_path, "w"), indent=1)
                continue
            demo_src = next((os.path.join(d, f) for f in os.listdir(d) if f.endswith(".rs")), None)
            dest, cmds = DEMOS.get(name, DEMOS.get(prop, DEMOS["default"]))
            confirmed = {}
            if os.environ.get("DEMO", "1") != "0" and demo_src:
                os.makedirs(os.path.dirname(os.path.join(REPO, dest)), exist_ok=True)
                shutil.copy(demo_src, os.path.join(REPO, dest))
                # without the change: every command passes
                without = []
                for cmd, _ in cmds:
                    rc, out = sh(cmd, cwd=REPO)
                    without.append(dict(cmd=cmd, exit=rc, summary=[l for l in out.splitlines() if l.startswith("test result")][-1:] ))
                sh(f"git apply {patch}", cwd=REPO)
                withc = []
                for cmd, expect in cmds:
                    rc, out = sh(cmd, cwd=REPO)
                    withc.append(dict(cmd=cmd, exit=rc, expected=expect, summary=[l for l in out.splitlines() if l.startswith("test result")][-1:]))
                confirmed["demo_without_change_passes"] = all(w["exit"] == 0 for w in without)
                confirmed["demo_with_change_as_expected"] = all((w["exit"] != 0) == (w["expected"] == "fail") for w in withc)
                confirmed["demo_runs"] = dict(without=without, with_change=withc)
                os.remove(os.path.join(REPO, dest))
            else:
                sh(f"git apply {patch}", cwd=REPO)
            if os.environ.get("SUITE", "1") != "0":
                rc, out = sh(os.path.join(ROOT, "tools", "baseline.sh"))
                confirmed["repo_suite_with_change"] = "pass" if rc == 0 else "FAIL"
                confirmed["repo_suite_summary"] = out.strip().splitlines()[0] if out.strip() else ""
                if prop == "C17":
                    rc, out = sh("cargo test --offline --features protobuf 2>&1 | grep -cE '^test result: FAILED'", cwd=REPO)
                    confirmed["repo_suite_protobuf_feature_failed_targets"] = out.strip()
            checks = {}
            for p in props:
                rc_c, out_c = sh(f"./check {p} quick", cwd=ROOT)
                sigs = [l for l in out_c.splitlines() if l.startswith("violation:") or l.lstrip().startswith("further:")]
                checks[p] = dict(exit=rc_c, detected=(rc_c == 1 and "VIOLATION property=" in out_c), signatures=[s[:260] for s in sigs[:4]], last_line=out_c.strip().splitlines()[-1][:200] if out_c.strip() else "")
            merged = dict(meta.get("confirmed_by_me", {}))
            merged.update(confirmed)
            confirmed = merged
            meta.update(applies_on=dict(commit=head, ok=True), confirmed_by_me=confirmed, checks=checks, what_i_ran=["tools/run_seeded.py " + name], wall_s=round(time.time() - t0))
            print(f"{name}: suite {confirmed.get('repo_suite_with_change')}; demo ok without={confirmed.get('demo_without_change_passes')} with-as-expected={confirmed.get('demo_with_change_as_expected')}; detected " + str({p: c['detected'] for p, c in checks.items()}), flush=True)
        finally:
            clean_repo()
        json.dump(meta, open(meta_path, "w"), indent=1)
    return 0


if __name__ == "__main__":
    sys.exit(main())
