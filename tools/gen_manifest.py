#!/usr/bin/env python3
"""Regenerates /verif/MANIFEST.json (kept valid at all times; edit the tables below)."""
import json, os

ROOT = os.path.dirname(os.path.dirname(os.path.abspath(__file__)))

NA = {
 "C02": "pure function of (type, value) decided against an independent X.691 reference encoder; no history, I/O object, fault, peer or schedule for a simulator to vary (DESIGN 5.C02)",
 "C03": "the property's own quantifier is a bounded-exhaustive enumeration of shapes x presence patterns of a pure encode/decode function (model-checking/enumeration family, not simulation) (DESIGN 5.C03)",
 "C06": "pure function of (type, value) on the error path of one encode call; no history, I/O object, fault or peer (DESIGN 5.C06)",
 "C07": "pure function of module text; the front end keeps no state between calls, does no I/O and reads no clock (DESIGN 5.C07)",
 "C08": "pure function of module text (generator vs attribute parser); no environment dimension (DESIGN 5.C08)",
 "C09": "pure function of module text with rustc as oracle; grammar-based program generation is not simulation (DESIGN 5.C09)",
 "C10": "pure function of (lower bound, upper bound, value) decided by exhaustive/boundary enumeration against the standard (DESIGN 5.C10)",
 "C13": "pure function of the text layout; re-layout is input generation, tokenizer state lives inside one call (DESIGN 5.C13)",
 "C15": "pure function of (min, max); exhaustive enumeration of a threshold cascade (DESIGN 5.C15)",
 "C16": "pure function of module text; the quantifier is a permutation enumeration (DESIGN 5.C16)",
 "C18": "pure function; needs an independent protobuf/.proto implementation as oracle, which is not a simulation seam (DESIGN 5.C18)",
}

CHECKS = {
 "C01": dict(
   category="exploration", design_ref="5.C01",
   technique="deterministic simulation (faults off): seeded scheduler over producer/consumer histories on long-lived UperWriter/UperReader, reference-model oracle",
   text="Seeded search over histories: 1-3 producer/consumer pairs append streams of zoo messages to long-lived writers, snapshot and poll at scheduler-chosen instants and resume from saved bit offsets; every decoded value must equal the sent one (PartialEq) and consume exactly its bit extent, closed streams must end with 0 bits remaining, slack bytes / garbage padding after the declared length must be invisible. Evidence, not proof: the type dimension is the finite zoo, values and schedules are sampled (about 1.2M runs quick, 50M thorough, in two build profiles).",
   note="Trusted: the harness's GenReader/TreeWriter over the public descriptor traits, PartialEq of generated types, rustc. Assumed: values reachable through public constructors; zoo types stand for 'every accepted type'. Scenarios inside the domain predicate of the open known finding D7 (open-type payload >= 16384 octets) are re-drawn; its pinned replays are re-run instead. The zoo (about 1100 types) is hand-written groups plus generated modules and generated version chains (tools/gen_zoo.py, tools/gen_rchains.py)."),
 "C04": dict(
   category="fault_enumeration", design_ref="5.C04",
   technique="deterministic simulation with fault injection on the wire and under io::Read; out-of-process abort/hang detection; allocator seam",
   text="Seeded fault sequences (1-3 of: bit flip, declared-length truncation, torn bytes, extension, byte/bit insertion and deletion, overwrite, splice, random bytes, cross-type decode; under the DER reader also short reads, EINTR, EOF@k, error@k) on deliveries of UPER message streams, protobuf messages and DER item streams, with fault positions biased to flags/indices/length determinants located by a clean TraceBits pass. Oracles O1 no panic, O2 no abort/stack overflow/hang (child processes, watchdog), O3 allocation budget via a counting global allocator, O4 no Ok past the declared length and no slack-dependent Ok, O5 accessors callable after a failed read; the unaffected prefix stays under the exact oracle. Two build profiles (overflow/debug assertions on, and plain release).",
   note="Trusted: harness fault process and allocator wrapper. Assumed: zoo target types; hard I/O errors other than EOF and reads after a failed read are outside the statement (diagnostics only); allocation budget 32 MiB + 32768 x input bytes is sound because list elements of the decoding targets take >= 1 bit (types with unbounded lists of zero-bit elements are annotated @zeroamp and are not decoding targets of corrupted deliveries, DESIGN 5.C04)."),
 "C11": dict(
   category="exploration", design_ref="5.C11",
   technique="deterministic simulation of operation histories on bit stores against a Vec<bool> reference model, with capacity and short-source faults",
   text="Seeded operation histories (mixed write_bit / write_bits* / read_* / with_write_position_at / with_max_read / set_pos / set_len / conversions) on BitBuffer, Bits and the two slice tuples, checked operation by operation against a Vec<bool> model: copied bits equal, every other destination bit unchanged, cursor advanced by n, too-short source or destination gives Err not panic, BitBuffer always ceil(bit_len/8) bytes with zero padding. Offsets/lengths biased to every (src%8, dst%8, len%8) class, the bulk threshold and exact-fit / one-bit-short capacities.",
   note="Trusted: the Vec<bool> model. Assumed: documented panics are preconditions; content and cursor after a failed operation are unspecified (model re-synchronises); ensure_can_write_additional_bits is not called directly; the property's exhaustive-for-<=5-bytes clause is an enumeration and is not performed."),
 "C19": dict(
   category="exploration", design_ref="5.C19",
   technique="deterministic simulation run in two differently built processes (build skew); outcome logs of identical seeded fault histories diffed",
   text="The same seeded UPER fault histories (C04 scenario generator: fault-free and corrupted deliveries, all zoo types incl. cross-type decoding) are executed by two worker binaries, one built with default features and one with descriptive-deserialize-errors; per decode attempt the Ok value hash / ErrorKind with payload / panic site, reader position and length, and whether bits_remaining() panicked must be identical line by line, and the per-chunk event-log hashes must agree. Determinism of the simulator (one tape = one history) is what makes the comparison exact.",
   note="Trusted: the simulator's determinism (re-checked by the resample of every run and by ./check selftest). Error equality is ErrorKind variant + payload without backtraces; diagnostics content is not compared. Zoo types only."),
 "C20": dict(
   category="fault_enumeration", design_ref="5.C20",
   technique="deterministic simulation of io::Read/io::Write objects under the DER codec: short transfers, EINTR, writer crash@k, reader EOF/error@k, fault-point enumeration",
   text="The code under the property is blanket impls over std::io::{Read, Write}, so the simulator owns those objects: every item written (identifier 4 classes x number < 31, length, boolean, i64/u64 from the boundary families, typed BOOLEAN/INTEGER of 8 widths/ENUMERATED) must read back equal consuming exactly the bytes produced under every legal non-failing behaviour (1..n bytes per call, Interrupted); after a writer crash at byte k the items completely written before k must still read back exactly; a true whose content octet is replaced by any non-zero octet reads true. Fault-point enumeration covers every byte offset (crash, EOF, error) and chunk sizes 1..8 for sampled streams <= 64 bytes.",
   note="Trusted: FaultyRead/FaultyWrite shims. Assumed: integer primitives are read with the byte length the writer produced; behaviour the property is silent about (torn item, failing reader) is recorded as diagnostics only; canonical DER form and tag numbers >= 31 are out of scope."),
 "C05": dict(
   category="exploration", design_ref="5.C05",
   technique="deterministic multi-party simulation in version-skew configurations: sender and receiver run different versions of a schema chain, message streams with sentinel, reference-model oracle",
   text="Sender and receiver are simulated peers running different versions (lo < hi, both directions) of generated schema chains (SEQUENCE, SEQUENCE with a large first addition, SET, DEFAULT-only SEQUENCE, CHOICE, ENUMERATED; 4-11 versions each; the evolving type alone, followed by a tail field, inside SEQUENCE OF, and as OPTIONAL component followed by a string). 1-6 messages plus a sentinel go into one writer; the receiver must decode each to the expected view (old->new: all new additions absent; new->old: the lower-version value), consume exactly the message extent, and the sentinel must decode with 0 bits left. A selected unknown alternative/value may give Err but never Ok. New additions carry payloads up to 300 octets so open-type lengths cross 127/128.",
   note="Trusted: TreeReader's positional alignment of versions and GenReader (valid mode). Assumed: evolution = appending additions/alternatives/values with AUTOMATIC TAGS; sender-side ExtensionFieldsInconsistent refusals are skipped and counted."),
 "C12": dict(
   category="exploration", design_ref="5.C12",
   technique="deterministic simulation of the module-file environment: module set, load order permutations, match by name vs OID, missing-module fault; literal module as reference model",
   text="Claimed narrowly for the environment dimension. A small generator prints a schema once with literals and once with a drawn subset replaced by value references placed locally (before/after use), in a sibling imported by name, by name+OID, by OID only, or re-exported through an import chain over two modules, optionally with a decoy module (same name with another OID or without OID) and an unrelated module; the environment loads the set in every permutation (<= 4 modules) through the real tokenizer, parser and MultiModuleResolver. In every order the resolved definitions must equal those of the literal module; a missing sibling, an undefined reference and a non-integer value used as integer bound must be errors.",
   note="Trusted: the literal module as oracle, Debug equality of resolved definitions. The schema x literal-subset dimension is only sampled; Converter's file I/O is stubbed (its load_file lines are re-stated), generated Rust is not checked."),
 "C14": dict(
   category="fault_enumeration", design_ref="5.C14",
   technique="deterministic simulation with fault injection on stored module text (torn/edited files) through the whole front-end pipeline; out-of-process stack-overflow/hang detection; fault-point enumeration",
   text="Stored module text (zoo modules, a hand-written corpus covering the README constructs, every inline module of /repo/tests) receives 1-4 storage faults (torn file, char loss/insertion, token deletion/duplication/swap/insertion/replacement incl. reference-name and import-module-name typos, number replacement), is a token soup, or gets a definition nested 2..40 000 levels deep in six forms (T-NEST), alone or as a 2-3 module scope, and is pushed through Tokenizer -> Model::try_from -> try_resolve / try_resolve_all -> to_rust / to_rust_with_scope -> to_protobuf. Oracle: no panic except the sanctioned unclosed-comment one, no abort / stack overflow / hang (child processes + watchdog). A share of the runs enumerates every truncation point, single-token deletion and adjacent swap of one module.",
   note="Trusted: harness text-fault process. Not checked: whether an edited module is accepted or rejected, error contents, code generation."),
 "C17": dict(
   category="exploration", design_ref="5.C17",
   technique="deterministic simulation of two storage back ends with capacity faults and of io::Read/io::Write objects under the protobuf primitives; reference-model (tree) oracle modulo proto3 default equivalence",
   text="Claimed narrowly for the back-end / I/O dimension. The same zoo value is written through the growable and the fixed-slice back end with a drawn capacity (exact fit, generous, one short, smaller, zero): whenever a back end reports Ok its as_bytes / len_written / into_bytes_vec must equal the other's; the bytes must read back proto-equal to the original. The ProtoWrite/ProtoRead primitives run over FaultyWrite/FaultyRead pipes with short transfers and EINTR and must round trip exactly consuming exactly the bytes produced.",
   note="Trusted: structural proto3 default equivalence on value trees (at least as coarse as ProtobufEq). Values in valid mode only; values in the domain of the open findings D11 (list in list) and D12 (list in CHOICE) are skipped and represented by pinned replays."),
}

def main():
    checks = []
    for pid, c in CHECKS.items():
        checks.append({
            "property_id": pid,
            "quick_cmd": f"./check {pid} quick",
            "thorough_cmd": f"./check {pid} thorough",
            "evidence_file": f"evidence/{pid}.json",
            "replay_cmd_template": "./check replay {path}",
            "engine": "sim",
            "level_claimed": {"category": c["category"], "text": c["text"], "design_ref": c["design_ref"]},
            "level_note": c["note"],
            "technique": c["technique"],
        })
    m = {
        "version": 1,
        "setup_cmd": "./setup.sh",
        "hooks": {
            "guard": "asn1rs_verif",
            "enable": "no hook exists: every seam used is public API of asn1rs or a facility of the final binary (allocator, panic hook, child processes); the guard name --cfg asn1rs_verif is reserved and unused",
            "baseline_off_cmd": "cd /repo && cargo test --workspace --no-fail-fast --offline",
            "source_commits": [],
            "add_only": True,
        },
        "engines": [{
            "name": "sim", "path": "sim", "serves_properties": sorted(CHECKS),
            "kind_free_text": "deterministic simulator (Rust crate, no dependencies beyond asn1rs by path): choice tape with lanes, seeded scheduler, wire / bit-store / I/O / front-end layers, fault process, allocator seam, child-process workers with abort/hang triage, tape minimiser, replay; Python driver ./check builds it against /repo's working tree",
        }],
        "checks": checks,
        "notes": "DESIGN.md explains approach and per-property oracles. ./check <id> quick|thorough (VERIF_SEED honoured); ./check replay <file>; ./check selftest (determinism proof). known_findings.json lists open findings (KNOWN-FINDING lines) and fixed defects. All /repo commits are 'fix:' commits of genuine defects; there are no hooks.",
        "not_applicable": [{"property_id": k, "reason": v} for k, v in NA.items() if k not in CHECKS],
    }
    json.dump(m, open(os.path.join(ROOT, "MANIFEST.json"), "w"), indent=1)
    print("wrote MANIFEST.json with", len(checks), "checks,", len(m["not_applicable"]), "not applicable")

if __name__ == "__main__":
    main()
