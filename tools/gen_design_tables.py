#!/usr/bin/env python3
"""Prints the markdown tables of DESIGN.md section 11 from sensitivity/results.json and seeded/*/meta.json."""
import json, os, glob
ROOT = os.path.dirname(os.path.dirname(os.path.abspath(__file__)))
r = json.load(open(os.path.join(ROOT, "sensitivity", "results.json")))
print("| mutant | edit | repo suite | detected by (quick tier) | first signature |")
print("|--------|------|-----------|--------------------------|-----------------|")
for name, m in r.items():
    if m.get("status") != "ran":
        continue
    det = ", ".join(f"{p}: {'yes' if c['detected'] else 'NO'}" for p, c in m["checks"].items())
    sig = ""
    for c in m["checks"].values():
        if c["signatures"]:
            sig = c["signatures"][0].split(" (build")[0].replace("violation: ", "")
            break
    print(f"| {name} | {m['note']} | {m['repo_suite']} | {det} | `{sig[:110]}` |")
print()
print("| seeded change | property | what it needs to manifest | repo suite with it | demo confirmed | detected | first signature |")
print("|---------------|----------|---------------------------|--------------------|----------------|----------|-----------------|")
for d in sorted(glob.glob(os.path.join(ROOT, "seeded", "*", "meta.json"))):
    m = json.load(open(d))
    name = os.path.basename(os.path.dirname(d))
    c = m.get("confirmed_by_me", {})
    det = ", ".join(f"{p}: {'yes' if x['detected'] else 'NO'}" for p, x in m.get("checks", {}).items())
    sig = ""
    for x in m.get("checks", {}).values():
        if x["signatures"]:
            sig = x["signatures"][0].split(" (build")[0].replace("violation: ", "")
            break
    demo = "yes" if c.get("demo_without_change_passes") and c.get("demo_with_change_as_expected") else "NO"
    print(f"| {name} | {m.get('property')} | {m.get('needs_to_manifest','')} | {c.get('repo_suite_with_change')} | {demo} | {det} | `{sig[:100]}` |")
