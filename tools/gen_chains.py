#!/usr/bin/env python3
"""Generates the version-chain zoo modules for C05 (zoo/chain_*.asn1). Each version of a chain is its
own ASN.1 module (same type names), V(n+1) = V(n) + exactly one appended extension addition /
alternative / value. Containers put data BEHIND the evolving type so a mis-skipped addition is seen."""
import os
ZOO = os.path.join(os.path.dirname(os.path.dirname(os.path.abspath(__file__))), "sim", "zoo")

SEQ_ADDS = [
    "a1 BOOLEAN OPTIONAL",
    "a2 INTEGER (0..1000) OPTIONAL",
    "a3 UTF8String OPTIONAL",
    "a4 OCTET STRING (SIZE(0..300)) OPTIONAL",
    "a5 SEQUENCE { p INTEGER (0..7), q BOOLEAN OPTIONAL } OPTIONAL",
    "a6 SEQUENCE (SIZE(0..4)) OF INTEGER (0..255) OPTIONAL",
    "a7 CHOICE { i INTEGER (0..255), b BOOLEAN } OPTIONAL",
    "a8 ENUMERATED { k, l, m } OPTIONAL",
]
SET_ADDS = [
    "x1 INTEGER (0..65535) OPTIONAL",
    "x2 BOOLEAN DEFAULT FALSE",
    "x3 IA5String (SIZE(0..200)) OPTIONAL",
]
DEF_ADDS = [
    "d1 INTEGER (0..100) DEFAULT 42",
    "d2 BOOLEAN OPTIONAL",
    "d3 UTF8String DEFAULT \"dflt\"",
    "d4 OCTET STRING (SIZE(0..300)) OPTIONAL",
]
CHO_ADDS = [
    "c UTF8String",
    "d SEQUENCE { w INTEGER (0..65535), v BOOLEAN OPTIONAL }",
    "e OCTET STRING (SIZE(0..300))",
]
ENU_ADDS = ["z", "w", "v"]
# a chain whose FIRST addition is big: the bytes of its open-type length are what a receiver that
# knows more additions than were transmitted would misread as presence flags
BIG_ADDS = [
    "b1 OCTET STRING (SIZE(0..300)) OPTIONAL",
    "b2 UTF8String OPTIONAL",
    "b3 BOOLEAN OPTIONAL",
    "b4 INTEGER (0..255) OPTIONAL",
    "b5 OCTET STRING (SIZE(0..300)) OPTIONAL",
    "b6 BOOLEAN DEFAULT TRUE",
    "b7 SEQUENCE (SIZE(0..4)) OF INTEGER (0..255) OPTIONAL",
    "b8 BOOLEAN OPTIONAL",
    "b9 INTEGER (0..7) OPTIONAL",
    "b10 BOOLEAN OPTIONAL",
]

def containers(chain, ver, extra=""):
    return f"""  Wrap ::= SEQUENCE {{ m Msg, tail INTEGER (0..255) }}          -- @chain={chain}.Wrap:{ver}
  Many ::= SEQUENCE (SIZE(0..3)) OF Msg                          -- @chain={chain}.Many:{ver}
  Opt ::= SEQUENCE {{ pre BOOLEAN, m Msg OPTIONAL, post UTF8String (SIZE(0..5)) }}   -- @chain={chain}.Opt:{ver}
{extra}"""

def write(name, module, body):
    with open(os.path.join(ZOO, name + ".asn1"), "w") as f:
        f.write(f"{module} DEFINITIONS AUTOMATIC TAGS ::= BEGIN\n{body}END\n")

def main():
    for old in os.listdir(ZOO):
        if old.startswith("chain_"):
            os.remove(os.path.join(ZOO, old))
    for v in range(len(SEQ_ADDS) + 1):
        adds = "".join(", " + a for a in SEQ_ADDS[:v])
        body = f"  Msg ::= SEQUENCE {{ id INTEGER (0..255), flag BOOLEAN OPTIONAL, ...{adds} }}     -- @chain=seq.Msg:{v}\n" + containers("seq", v)
        write(f"chain_seq_v{v}", f"ChainSeqV{v}", body)
    for v in range(len(SET_ADDS) + 1):
        adds = "".join(", " + a for a in SET_ADDS[:v])
        body = f"  Msg ::= SET {{ id INTEGER (0..255), name UTF8String (SIZE(0..6)) OPTIONAL, ...{adds} }}     -- @chain=set.Msg:{v}\n" + containers("set", v)
        write(f"chain_set_v{v}", f"ChainSetV{v}", body)
    for v in range(len(DEF_ADDS) + 1):
        # a chain that starts with NO root optionals and (V0) no additions at all
        adds = "".join(", " + a for a in DEF_ADDS[:v])
        body = f"  Msg ::= SEQUENCE {{ id INTEGER (0..7), ...{adds} }}     -- @chain=def.Msg:{v}\n" + containers("def", v)
        write(f"chain_def_v{v}", f"ChainDefV{v}", body)
    for v in range(len(BIG_ADDS) + 1):
        adds = "".join(", " + a for a in BIG_ADDS[:v])
        body = f"  Msg ::= SEQUENCE {{ id INTEGER (0..255), ...{adds} }}     -- @chain=big.Msg:{v}\n" + containers("big", v)
        write(f"chain_big_v{v}", f"ChainBigV{v}", body)
    for v in range(len(CHO_ADDS) + 1):
        adds = "".join(", " + a for a in CHO_ADDS[:v])
        body = f"  Msg ::= CHOICE {{ a INTEGER (0..255), b BOOLEAN, ...{adds} }}     -- @chain=cho.Msg:{v}\n" + containers("cho", v)
        write(f"chain_cho_v{v}", f"ChainChoV{v}", body)
    for v in range(len(ENU_ADDS) + 1):
        adds = "".join(", " + a for a in ENU_ADDS[:v])
        body = f"  Msg ::= ENUMERATED {{ x, y, ...{adds} }}     -- @chain=enu.Msg:{v}\n" + containers("enu", v)
        write(f"chain_enu_v{v}", f"ChainEnuV{v}", body)

if __name__ == "__main__":
    main()
