#!/usr/bin/env python3
"""Generates RANDOM version chains for C05: /verif/sim/zoo/rchain_<k>_v<i>.asn1 (committed; re-run only with
new chain numbers, `zoo/ORDER` is append-only).

The hand-written chains (tools/gen_chains.py) append one well-chosen addition per version to a minimal
root. These chains take root and additions from the random type generator of tools/gen_zoo.py: roots with
several OPTIONAL/DEFAULT/mandatory components of any kind in front of the marker (SEQUENCE and SET, the
latter with explicit tags), additions that are OPTIONAL or DEFAULT and of any kind (NULL, zero-bit
integers, strings of every kind and constraint, lists, inline extensible SEQUENCE / CHOICE /
ENUMERATED), CHOICE chains whose root and extension alternatives are of any kind. Each version is its
own ASN.1 module with the same type names; the containers put data BEHIND the evolving type.

usage: tools/gen_rchains.py <first-chain-number> <count> <python-seed> [versions] [tagchoice]
  tagchoice: CHOICE chains whose alternatives carry explicit, scrambled tags, plus the role InSet
  nest: SEQUENCE/SET chains with the additional roles InExt, PairExt, ManyExt, AltExt, Pair
"""
import os, random, sys
sys.path.insert(0, os.path.dirname(os.path.abspath(__file__)))
from gen_zoo import G

ZOO = os.path.join(os.path.dirname(os.path.dirname(os.path.abspath(__file__))), "sim", "zoo")


def containers(chain, ver, flags, inset=False, nest=False):
    extra = ""
    if nest:
        # the evolving type INSIDE an open type (an extension addition of an outer SEQUENCE, a known extension
        # alternative of a CHOICE) and FOLLOWED by further content there, as list element inside an addition, and
        # twice side by side: unknown additions of the inner value must be skipped exactly, the enclosing
        # open type's end is not a substitute
        extra += f"  InExt ::= SEQUENCE {{ a BOOLEAN, ..., p SEQUENCE {{ inner Msg, tail INTEGER (0..255) }} OPTIONAL, q INTEGER (0..65535) OPTIONAL }}   -- @chain={chain}.InExt:{ver}{flags}\n"
        extra += f"  PairExt ::= SEQUENCE {{ a BOOLEAN, ..., two SEQUENCE {{ x Msg, y Msg, z INTEGER (0..255) }} OPTIONAL }}   -- @chain={chain}.PairExt:{ver}{flags}\n"
        extra += f"  ManyExt ::= SEQUENCE {{ a BOOLEAN, ..., l SEQUENCE (SIZE(0..3)) OF Msg OPTIONAL, q BOOLEAN OPTIONAL }}   -- @chain={chain}.ManyExt:{ver}{flags}\n"
        extra += f"  AltExt ::= CHOICE {{ n BOOLEAN, ..., c SEQUENCE {{ inner Msg, tail INTEGER (0..255) }} }}   -- @chain={chain}.AltExt:{ver}{flags}\n"
        extra += f"  Pair ::= SEQUENCE {{ x Msg, y Msg, tail INTEGER (0..255) }}   -- @chain={chain}.Pair:{ver}{flags}\n"
    if inset:
        # the evolving type as an UNTAGGED component of a SET with explicit tags: its position in the SET's
        # canonical order comes from the tag the compiler resolves for it, which must not change when a
        # version appends something (e.g. an extension alternative with a small tag to a CHOICE)
        extra = f"  InSet ::= SET {{ a [5] INTEGER (0..255), m Msg, z [30] BOOLEAN, ..., y [7] INTEGER (0..7) OPTIONAL }}   -- @chain={chain}.InSet:{ver}{flags}\n"
    return extra + f"""  Wrap ::= SEQUENCE {{ m Msg, tail INTEGER (0..255) }}          -- @chain={chain}.Wrap:{ver}{flags}
  Many ::= SEQUENCE (SIZE(0..3)) OF Msg                          -- @chain={chain}.Many:{ver}{flags}
  Opt ::= SEQUENCE {{ pre BOOLEAN, m Msg OPTIONAL, post UTF8String (SIZE(0..5)) }}   -- @chain={chain}.Opt:{ver}{flags}
"""


def main():
    first, count, seed = int(sys.argv[1]), int(sys.argv[2]), int(sys.argv[3])
    versions = int(sys.argv[4]) if len(sys.argv) > 4 and sys.argv[4].isdigit() else 5
    tagged_choice = "tagchoice" in sys.argv[4:]
    nest = "nest" in sys.argv[4:]
    for k in range(first, first + count):
        g = G(seed * 1000 + k, "X")
        r = g.r
        kind = "CHOICE" if tagged_choice else r.choice(["SEQUENCE", "SEQUENCE", "SET"] if nest else ["SEQUENCE", "SEQUENCE", "SET", "CHOICE"])
        amp = False
        if kind == "CHOICE" and tagged_choice:
            # alternatives with explicit context tags in scrambled order; later alternatives often get SMALLER
            # tags than the root ones
            nroot = r.choice([1, 2, 3])
            tags = r.sample(range(8, 30), nroot) + r.sample(range(0, 8), versions - 1)
            if r.randrange(2) == 0:
                r.shuffle(tags)
            root, adds = [], []
            for i in range(nroot + versions - 1):
                t, _ = g.field_type(1)
                while t.startswith("CHOICE") or t == "NULL":
                    t, _ = g.field_type(1)
                amp = amp or g.info[t][1]
                (root if i < nroot else adds).append(f"{'r' if i < nroot else 'x'}{i} [{tags[i]}] {t}")
        elif kind == "CHOICE":
            nroot = r.choice([1, 2, 3, 5])
            root = []
            for i in range(nroot):
                t, _ = g.field_type(1)
                amp = amp or g.info[t][1]
                root.append(f"r{i} {t}")
            adds = []
            for i in range(versions - 1):
                t, _ = g.field_type(1)
                amp = amp or g.info[t][1]
                adds.append(f"x{i} {t}")
        else:
            nroot = r.choice([1, 2, 3, 4, 6])
            tagged = kind == "SET" and r.randrange(2) == 0
            tags = r.sample(range(0, 40), nroot + versions)
            def tag(i):
                return f"[{r.choice(['', '', 'APPLICATION ', 'PRIVATE '])}{tags[i]}] " if tagged else ""
            root = []
            for i in range(nroot):
                t, dflt = g.field_type(1)
                amp = amp or g.info[t][1]
                q = r.randrange(10)
                suffix = " OPTIONAL" if q < 3 else (f" DEFAULT {dflt}" if dflt is not None and q < 5 else "")
                root.append(f"r{i} {tag(i)}{t}{suffix}")
            adds = []
            for i in range(versions - 1):
                t, dflt = g.field_type(1)
                amp = amp or g.info[t][1]
                suffix = f" DEFAULT {dflt}" if dflt is not None and r.randrange(10) < 4 else " OPTIONAL"
                adds.append(f"x{i} {tag(nroot + i)}{t}{suffix}")
        flags = " @zeroamp" if amp else ""
        for v in range(versions):
            body = f"  Msg ::= {kind} {{ " + ", ".join(root + ["..."] + adds[:v]) + f" }}     -- @chain=r{k}.Msg:{v}{flags}\n" + containers(f"r{k}", v, flags, inset=tagged_choice, nest=nest)
            with open(os.path.join(ZOO, f"rchain_{k}_v{v}.asn1"), "w") as f:
                f.write(f"-- generated by tools/gen_rchains.py (chain {k}, seed {seed}); do not edit\nRchain{k}V{v} DEFINITIONS AUTOMATIC TAGS ::= BEGIN\n{body}END\n")
        print(f"rchain_{k}: {kind}, {nroot} root, {versions} versions{flags}")


if __name__ == "__main__":
    main()
