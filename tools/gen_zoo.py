#!/usr/bin/env python3
"""Generates the random part of the type zoo: /verif/sim/zoo/rand_<x>.asn1 (committed; the generator is
only re-run on purpose, with a NEW file name, because pinned replay tapes address zoo types by index and
`zoo/ORDER` is append-only).

The hand-written zoo enumerates the constructs one at a time; this part combines them the way a schema
author would not think of testing: extension markers at every position (first, after the first field,
last), OPTIONAL/DEFAULT/mandatory fields on both sides of the marker, SETs with scrambled explicit tags,
integers around every power-of-two boundary with and without extension, every string kind with every
constraint form as list element / field / alternative, lists in lists with different constraints on
each level, enumerations with 1..40 values and markers anywhere. The shapes matter for changes on the
compiler side (descriptor constants emitted by the code generator), which the runtime cannot see.

usage: tools/gen_zoo.py <letter> <python-seed> <count> [proto] [tags]      e.g. tools/gen_zoo.py a 20260926 45
  proto: flag the module for the protobuf checks; tags: explicit tags also on CHOICE alternatives / SEQUENCE components
"""
import random, sys

BOUNDS = [-(2**63), -(2**32) - 1, -(2**31), -65537, -32769, -32768, -129, -128, -17, -1, 0, 1, 2, 7, 8, 127, 128,
          255, 256, 65535, 65536, 65537, 2**31 - 1, 2**31, 2**32 - 1, 2**32, 2**53, 2**63 - 1]
STR_KINDS = ["UTF8String", "IA5String", "NumericString", "PrintableString", "VisibleString", "OCTET STRING", "BIT STRING"]
SAMPLE = {"UTF8String": ["a", "xyz", "Hello World", "q-1"], "IA5String": ["a", "xyz", "ab c", "Q9"]}


class G:
    def __init__(self, seed, prefix):
        self.r = random.Random(seed)
        self.proto = False
        self.tag_more = False
        self.prefix = prefix
        self.named = []       # (name, kind) of earlier top-level types; kind in struct/choice/enum/list/prim
        self.enums = {}       # name -> [values]
        self.lines = []
        self.n = 0
        # text of a (sub)type -> (zero, amp): `zero` = the type can encode in 0 bits, `amp` = it contains a
        # list of unbounded/large count whose element can encode in 0 bits (a reader must then allocate
        # 65536 elements per fragment header octet: inherent to the schema, see DESIGN 4 on @zeroamp)
        self.info = {"BOOLEAN": (False, False), "NULL": (True, False)}

        # text -> the type is a list / contains a list directly inside a list (protobuf finding D11: reading
        # such a value back never terminates, so these types are flagged @nestedlist)
        self.islist = {}
        self.nested = {}

    def note(self, text, zero, amp=False, islist=False, nested=False):
        self.info[text] = (zero, amp)
        self.islist[text] = islist
        self.nested[text] = nested
        return text

    def fresh(self):
        self.n += 1
        return f"{self.prefix}{self.n}"

    # ---- primitives ----
    def integer(self):
        """-> (text, (lo, hi) or None); zero bits iff lo == hi and not extensible (see `prim`)"""
        r = self.r
        k = r.randrange(10)
        if k == 0:
            return "INTEGER", None
        if k == 1:
            lo = r.choice(BOUNDS)
            return f"INTEGER ({lo}..MAX)", (lo, lo + 1000 if lo < 2**62 else lo)
        if k == 2:
            hi = r.choice(BOUNDS)
            if self.proto and hi < 0:
                # asn1rs maps (MIN..hi) to u64 whatever hi is: with hi < 0 the Rust type holds no valid value at
                # all (integer type selection, C15, is not a claimed property), and the protobuf writer narrows by
                # the constraint, so nothing about such a type is meaningful under C17
                hi = -hi
            # asn1rs picks the Rust type of (MIN..hi) from hi alone (unsigned for hi >= 0): defaults stay at hi or 0
            return f"INTEGER (MIN..{hi})", (min(hi, 0), hi)
        a, b = r.choice(BOUNDS), r.choice(BOUNDS)
        if r.randrange(3) == 0:
            b = a + r.choice([0, 1, 2, 3, 7, 8, 254, 255, 256, 65534, 65535, 65536])
        lo, hi = min(a, b), max(a, b)
        hi = min(hi, 2**63 - 1)
        lo = max(lo, -(2**63))
        ext = ",..." if r.randrange(4) == 0 else ""
        return f"INTEGER ({lo}..{hi}{ext})", (lo, hi)

    def size(self, big_ok=True):
        r = self.r
        k = r.randrange(12)
        if k <= 1:
            return ""
        if k <= 3:
            return f"(SIZE({r.choice([1, 2, 3, 4, 7, 8, 9, 16, 17])}))"
        if k == 4 and big_ok:
            lo = r.choice([0, 1, 5])
            return f"(SIZE({lo}..{r.choice([65535, 65536, 66000])}))"
        lo = r.choice([0, 0, 1, 2, 3, 5])
        hi = lo + r.choice([0, 1, 2, 3, 4, 7, 8, 15, 16, 100, 254, 255, 256, 300])
        ext = ",..." if r.randrange(3) == 0 else ""
        return f"(SIZE({lo}..{hi}{ext}))"

    @staticmethod
    def size_info(s):
        """(can the length be 0 bits AND the count 0 or fixed, is the count attacker-controlled and large)
        -> (fixed_count or None, unbounded)"""
        import re
        if s == "":
            return None, True
        m = re.fullmatch(r"\(SIZE\((\d+)\)\)", s)
        if m:
            return int(m.group(1)), False
        m = re.fullmatch(r"\(SIZE\((\d+)\.\.(\d+)(,\.\.\.)?\)\)", s)
        lo, hi, ext = int(m.group(1)), int(m.group(2)), m.group(3) is not None
        if ext:
            return None, True
        return (lo if lo == hi else None), hi > 1000

    def string(self, big_ok=True):
        kind = self.r.choice(STR_KINDS)
        s = self.size(big_ok)
        return f"{kind} {s}".strip(), kind, s

    def prim(self, big_ok=True):
        """-> (text, default literal or None)"""
        r = self.r
        k = r.randrange(10)
        if k == 0:
            return "BOOLEAN", r.choice(["TRUE", "FALSE"])
        if k == 1:
            return "NULL", None
        if k <= 5:
            t, rng = self.integer()
            self.note(t, rng is not None and rng[0] == rng[1] and "MIN" not in t and "MAX" not in t and "..." not in t.replace("..", "", 1))
            if rng is None:
                return t, str(r.choice([0, 7, 1000]))   # unconstrained INTEGER is u64 in asn1rs
            lo, hi = rng
            return t, str(r.choice([lo, hi, (lo + hi) // 2]) if not t.startswith("INTEGER (MIN") else r.choice([lo, hi]))
        t, kind, s = self.string(big_ok)
        self.note(t, self.size_info(s)[0] == 0)
        dflt = None
        if kind in SAMPLE and s == "":
            dflt = '"' + r.choice(SAMPLE[kind]) + '"'
        return t, dflt

    # ---- constructed ----
    def enum_body(self):
        r = self.r
        n = r.choice([1, 2, 3, 3, 4, 5, 8, 9, 16, 17, 40])
        vals = [f"v{i}" for i in range(n)]
        k = r.randrange(3)
        if k == 0:
            return self.note("ENUMERATED { " + ", ".join(vals) + " }", n == 1), vals
        pos = r.randrange(1, n + 1)
        return self.note("ENUMERATED { " + ", ".join(vals[:pos] + ["..."] + vals[pos:]) + " }", False), vals

    def list_of(self, depth, big_ok=True, no_inline=False):
        r = self.r
        head = r.choice(["SEQUENCE", "SEQUENCE", "SET"])
        s = self.size(big_ok and depth == 0)
        # a top-level `X ::= SEQUENCE OF <inline constructed type>` names the inline type X as well (rustc
        # rejects the duplicate): top-level lists take primitive, named or list elements only
        elem, _ = self.field_type(depth + 1, in_list=True, no_inline=no_inline)
        fixed, large = self.size_info(s)
        ez, ea = self.info[elem]
        return self.note(f"{head} {s} OF {elem}".replace("  ", " "), fixed == 0 or (fixed is not None and ez), ea or (ez and large),
                         islist=True, nested=self.islist.get(elem, False) or self.nested.get(elem, False))

    def field_type(self, depth, in_list=False, no_inline=False):
        """-> (text, default literal or None)"""
        r = self.r
        k = r.randrange(20)
        if no_inline and k >= 14:
            k = r.choice([0, 9, 12])
            if not self.named and k == 9:
                k = 0
        if k < 9 or depth >= 3:
            return self.prim(big_ok=not in_list and depth == 0)
        if k < 12 and self.named:
            name, kind = r.choice(self.named)
            if kind == "enum":
                return name, r.choice(self.enums[name])
            return name, None
        if k < 14:
            return self.list_of(depth, big_ok=False, no_inline=no_inline), None
        if k < 16:
            return self.struct(depth + 1), None
        if k < 18:
            return self.choice(depth + 1), None
        if k < 19 and not in_list:
            return self.enum_body()[0], None
        return self.prim(big_ok=False)

    def struct(self, depth):
        r = self.r
        head = r.choice(["SEQUENCE", "SEQUENCE", "SEQUENCE", "SET"])
        n = r.choice([1, 1, 2, 3, 3, 4, 5, 6, 8, 12]) if depth == 0 else r.choice([1, 2, 3, 4])
        marker = None if r.randrange(5) < 2 else r.randrange(0, n + 1)
        tagged = head == "SET" and r.randrange(2) == 0
        if self.tag_more and not tagged:
            tagged = r.randrange(3) == 0   # explicit, scrambled tags on SEQUENCE components as well
        tags = r.sample(range(0, 40), n)
        parts = []
        zero, amp, nested = marker is None, False, False
        for i in range(n):
            if marker == i:
                parts.append("...")
            t, dflt = self.field_type(depth)
            zero, amp = zero and self.info[t][0], amp or self.info[t][1]
            nested = nested or self.nested.get(t, False)
            after = marker is not None and i >= marker
            k = r.randrange(10)
            if after:
                suffix = " OPTIONAL" if k < 6 else (f" DEFAULT {dflt}" if dflt is not None and k < 8 else "")
            else:
                suffix = " OPTIONAL" if k < 3 else (f" DEFAULT {dflt}" if dflt is not None and k < 5 else "")
            tag = ""
            if tagged:
                cls = r.choice(["", "", "APPLICATION ", "PRIVATE "])
                tag = f"[{cls}{tags[i]}] "
            zero = zero and suffix == ""
            parts.append(f"f{i} {tag}{t}{suffix}")
        if marker == n:
            parts.append("...")
        return self.note(head + " { " + ", ".join(parts) + " }", zero, amp, nested=nested)

    def choice(self, depth):
        r = self.r
        n = r.choice([1, 2, 2, 3, 4, 5, 9, 17]) if depth == 0 else r.choice([1, 2, 3])
        marker = None if r.randrange(2) == 0 else r.randrange(1, n + 1)
        parts = []
        zero, amp, nested = marker is None and n == 1, False, False
        # explicit tags on the alternatives, out of canonical order and of mixed classes (asn1rs numbers the
        # alternatives in definition order; writer and reader must agree on that whatever the tags say)
        tagged = self.tag_more and r.randrange(2) == 0
        tags = r.sample(range(0, 40), n) if tagged else []
        for i in range(n):
            if marker == i:
                parts.append("...")
            t, _ = self.field_type(depth)
            if tagged:
                t = f"[{r.choice(['', '', 'APPLICATION ', 'PRIVATE '])}{tags[i]}] {t}"
                self.info[t] = self.info[t.split("] ", 1)[1]]
                self.nested[t] = self.nested.get(t.split("] ", 1)[1], False)
            zero, amp = zero and self.info[t][0], amp or self.info[t][1]
            nested = nested or self.nested.get(t, False)
            parts.append(f"a{i} {t}")
        if marker == n:
            parts.append("...")
        return self.note("CHOICE { " + ", ".join(parts) + " }", zero, amp, nested=nested)

    def top(self):
        r = self.r
        name = self.fresh()
        k = r.randrange(20)
        if k < 8:
            body, kind = self.struct(0), "struct"
        elif k < 11:
            body, kind = self.choice(0), "choice"
        elif k < 13:
            body, vals = self.enum_body()
            kind = "enum"
            self.enums[name] = vals
        elif k < 17:
            body, kind = self.list_of(0, no_inline=True), "list"
        else:
            body, kind = self.prim()[0], "prim"
        self.named.append((name, kind))
        self.info[name] = self.info[body]
        self.islist[name] = self.islist.get(body, False)
        self.nested[name] = self.nested.get(body, False)
        flags = (["@zeroamp"] if self.info[body][1] else []) + (["@nestedlist"] if self.nested[name] else [])
        self.lines.append(f"  {name} ::= {body}" + ("      -- " + " ".join(flags) if flags else ""))


def main():
    letter, seed, count = sys.argv[1], int(sys.argv[2]), int(sys.argv[3])
    g = G(seed, "R" + letter)
    g.proto = "proto" in sys.argv[4:]
    g.tag_more = "tags" in sys.argv[4:]
    for _ in range(count):
        g.top()
    module = "ZooRand" + letter.upper()
    text = f"-- generated by tools/gen_zoo.py {letter} {seed} {count} (do not edit; generate a new file instead)\n"
    if "proto" in sys.argv[4:]:
        text += "-- @file: proto\n"
    text += f"{module} DEFINITIONS AUTOMATIC TAGS ::= BEGIN\n" + "\n".join(g.lines) + "\nEND\n"
    import os
    path = os.path.join(os.path.dirname(os.path.dirname(os.path.abspath(__file__))), "sim", "zoo", f"rand_{letter}.asn1")
    open(path, "w").write(text)
    print(path, len(g.lines), "types")


if __name__ == "__main__":
    main()
