#!/usr/bin/env python3
"""Assembles DESIGN.md from its parts (head = sections 0-5 as designed, tail = 6-10, s11, s12) and
fills the tables of section 11 from sensitivity/results.json and seeded/*/meta.json."""
import os, subprocess
ROOT = os.path.dirname(os.path.dirname(os.path.abspath(__file__)))
tables = subprocess.run(["python3", os.path.join(ROOT, "tools", "gen_design_tables.py")], capture_output=True, text=True).stdout
sens, seeded = tables.split("\n\n", 1)
parts = [open(os.path.join(ROOT, "docs", n)).read() for n in ("DESIGN.head.md", "DESIGN.tail.md", "DESIGN.s11.md", "DESIGN.s12.md")]
s11 = parts[2].replace("@@SENSITIVITY_TABLE@@", sens.strip()).replace("@@SEEDED_TABLE@@", seeded.strip())
open(os.path.join(ROOT, "DESIGN.md"), "w").write(parts[0] + parts[1] + s11 + parts[3])
print("DESIGN.md assembled:", sum(len(p) for p in parts), "chars")
