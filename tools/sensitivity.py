#!/usr/bin/env python3
"""Sensitivity proof (DESIGN 2.7): deliberate property-breaking edits are applied to /repo one at a time,
the repository's own suite and the quick check(s) of the targeted properties are run, and /repo is
restored (git checkout -- .). Results go to /verif/sensitivity/results.json (committed as a record; the
evidence files of the checks are rewritten by these runs and must be regenerated afterwards).

usage: tools/sensitivity.py [name-substring ...]
"""
import json, os, subprocess, sys, time

ROOT = os.path.dirname(os.path.dirname(os.path.abspath(__file__)))
REPO = "/repo"

M = []
def mut(name, props, file, old, new, note=""):
    M.append(dict(name=name, props=props, file=file, old=old, new=new, note=note))

mut("S01-bulk-copy-treats-dst-offset-5-as-aligned", ["C11", "C01"], "src/protocol/per/unaligned/slice.rs",
    "    if dst_byte_offset == 0 {\n        // both align",
    "    if dst_byte_offset == 0 || dst_byte_offset == 5 {\n        // both align",
    "one (dst%8) class of the bulk path only; UPER messages hit it when they start at bit 5 of a long-lived writer")
mut("S02-unconstrained-negative-drops-sign-octet", ["C01"], "src/protocol/per/unaligned/mod.rs",
    "            value.leading_ones().saturating_sub(1)",
    "            value.leading_ones()",
    "negative numbers just below -2^(8k-1) (e.g. -129) lose their sign octet; -12 (the repo test) is unaffected")
mut("S03-length-octets-unchecked-subtraction", ["C04"], "src/protocol/per/unaligned/mod.rs",
    "            if let Some(offset) = bytes.len().checked_sub(length) {",
    "            if let Some(offset) = Some(bytes.len().wrapping_sub(length)) {",
    "a length determinant > 8 in front of a semi-constrained integer indexes out of bounds (panic)")
mut("S04-bits-read_bits_with_offset-ignores-declared-length", ["C04"], "src/protocol/per/unaligned/buffer.rs",
    "        self.ensure_can_read_bits((dst.len() * BYTE_LEN).saturating_sub(dst_bit_offset))?;\n        BitRead::read_bits_with_offset(&mut (self.slice, &mut self.pos), dst, dst_bit_offset)",
    "        BitRead::read_bits_with_offset(&mut (self.slice, &mut self.pos), dst, dst_bit_offset)",
    "numbers are read past the declared length when the slice is longer (success depends on slack)")
mut("S05-extension-bitmap-uses-known-count", ["C05"], "src/rw/uper.rs",
    "                let range = bits.pos()..bits.pos() + read_number_of_ext_fields;\n                bits.set_pos(range.end); // skip bit-field",
    "                let range = bits.pos()..bits.pos() + *number_of_ext_fields;\n                bits.set_pos(range.start + read_number_of_ext_fields); // skip bit-field",
    "the original defect D8: only visible when sender and receiver know different addition counts")
mut("S06-unknown-addition-skipped-one-octet-short", ["C05"], "src/rw/uper.rs",
    "                self.bits.set_pos(end);\n            }\n        }\n\n        Ok(())",
    "                self.bits.set_pos(end - BYTE_LEN.min(length_bytes * BYTE_LEN));\n            }\n        }\n\n        Ok(())",
    "new -> old with a present unknown addition: the reader stops one octet early")
mut("S07-with_max_read-window-one-bit-too-long", ["C11"], "src/protocol/per/unaligned/buffer.rs",
    "core::mem::replace(&mut self.write_position, self.read_position + max_read_len);",
    "core::mem::replace(&mut self.write_position, self.read_position + max_read_len + 1);",
    "a read one bit past the window succeeds")
mut("S08-import-first-module-by-name-or-oid", ["C12"], "asn1rs-model/src/asn/resolve_scope.rs",
    "                self.scope\n                    .iter()\n                    .find(|m| m.oid.is_some() && m.oid.eq(&import.from_oid))\n                    .or_else(|| self.scope.iter().find(|m| m.name.eq(&import.from)))",
    "                self.scope.iter().find(|m| {\n                    (m.oid.is_some() && m.oid.eq(&import.from_oid)) || m.name.eq(&import.from)\n                })",
    "the original defect D13: needs a same-named module with another OID loaded first")
mut("S09-non-integer-reference-becomes-zero", ["C12"], "asn1rs-model/src/asn/resolve_scope.rs",
    "            LitOrRef::Ref(name) => match self.value_reference(name).map(|vr| vr.value.to_integer())\n            {\n                Some(Some(value)) => Ok(value),\n                Some(None) => Err(Error::FailedToParseLiteral(format!(\"name: {}\", name))),",
    "            LitOrRef::Ref(name) => match self.value_reference(name).map(|vr| vr.value.to_integer())\n            {\n                Some(Some(value)) => Ok(value),\n                Some(None) => Ok(0),",
    "a BOOLEAN/string value used as INTEGER range bound silently becomes 0")
mut("S10-field-default-unwraps-end-of-stream", ["C14"], "asn1rs-model/src/asn/model.rs",
    "        let token = {\n            let token = iter.next_or_err()?;\n            if token.eq_text_ignore_ascii_case(\"OPTIONAL\") {",
    "        let token = {\n            let token = iter.next().unwrap();\n            if token.eq_text_ignore_ascii_case(\"OPTIONAL\") {",
    "a module torn right after a component type panics")
mut("S11-tag-resolution-without-cycle-limit", ["C14"], "asn1rs-model/src/asn/tag_resolver.rs",
    "                    self.resolve_tag_limited(inner.as_str(), depth.checked_sub(1)?)",
    "                    self.resolve_tag_limited(inner.as_str(), depth)",
    "the original defect D14: A ::= A overflows the stack")
mut("S12-zigzag32-shift-30", ["C17"], "src/protocol/protobuf/mod.rs",
    "        self.write_varint(((value << 1) ^ (value >> 31)) as u64)",
    "        self.write_varint(((value << 1) ^ (value >> 30)) as u64)",
    "sint32 values with bit 30 set and bit 31 clear (>= 2^30) come back wrong")
mut("S13-slice-backend-write_all-becomes-write", ["C17"], "src/rw/proto_write.rs",
    "                let result = right.write_all(buf);",
    "                let result = right.write(buf).map(drop);",
    "a fixed slice that is too small reports success with truncated bytes")
mut("S14-dde-clamps-unknown-enumerated-index", ["C19"], "src/rw/uper.rs",
    "                let result = C::from_choice_index(index)\n                    .ok_or_else(|| ErrorKind::InvalidChoiceIndex(index, C::VARIANT_COUNT).into());",
    "                #[cfg(feature = \"descriptive-deserialize-errors\")]\n                let index = index.min(C::VARIANT_COUNT.saturating_sub(1));\n                let result = C::from_choice_index(index)\n                    .ok_or_else(|| ErrorKind::InvalidChoiceIndex(index, C::VARIANT_COUNT).into());",
    "only the feature build turns an unknown extension value into the last known one")
mut("S15-dde-length-determinant-read-twice-on-error", ["C19"], "src/rw/uper.rs",
    "        let result = self.bits.read_length_determinant(lower_bound, upper_bound);\n        #[cfg(feature = \"descriptive-deserialize-errors\")]",
    "        let result = self.bits.read_length_determinant(lower_bound, upper_bound);\n        #[cfg(feature = \"descriptive-deserialize-errors\")]\n        let result = result.or_else(|_| self.bits.read_length_determinant(lower_bound, upper_bound));\n        #[cfg(feature = \"descriptive-deserialize-errors\")]",
    "only the feature build retries a failed length read (position differs after truncation)")
mut("S16-der-read_integer_u64-single-read", ["C20"], "src/protocol/basic/distinguished/mod.rs",
    "        let offset = bytes.len() - byte_len as usize;\n        self.read_exact(&mut bytes[offset..])?;\n        Ok(u64::from_be_bytes(bytes))",
    "        let offset = bytes.len() - byte_len as usize;\n        let _ = self.read(&mut bytes[offset..])?;\n        Ok(u64::from_be_bytes(bytes))",
    "invisible with &[u8]; a reader that returns fewer bytes per call loses the tail of long-form lengths")
mut("S17-der-write_integer_i64-single-write", ["C20"], "src/protocol/basic/distinguished/mod.rs",
    "        let offset = (value.leading_zeros() / u8::BITS).min(bytes.len() as u32 - 1);\n        self.write_all(&bytes[offset as usize..])?;\n        Ok(())\n    }\n\n    #[inline]\n    fn write_integer_u64",
    "        let offset = (value.leading_zeros() / u8::BITS).min(bytes.len() as u32 - 1);\n        let _ = self.write(&bytes[offset as usize..])?;\n        Ok(())\n    }\n\n    #[inline]\n    fn write_integer_u64",
    "invisible with Vec<u8>; a writer that accepts fewer bytes per call tears integers")
mut("S18-der-boolean-only-0x01-is-true", ["C20"], "src/protocol/basic/distinguished/mod.rs",
    "        Ok(byte[0] != 0x00)",
    "        Ok(byte[0] == 0x01 || byte[0] == 0xFF)",
    "the repo tests check 0x01 and 0xFF only")
mut("S19-open-type-not-repositioned-after-content", ["C01", "C05"], "src/rw/uper.rs",
    "        if result.is_ok() {\n            // on successful read, skip the slice\n            self.bits.set_pos(write_position);\n        }",
    "        if result.is_ok() && write_position % 16 != 0 {\n            // on successful read, skip the slice\n            self.bits.set_pos(write_position);\n        }",
    "padding bits of an open type are not skipped when it happens to end on an even octet")

mut("S20-list-capacity-from-untrusted-length", ["C04"], "src/rw/uper.rs",
    "                    let mut vec = Vec::with_capacity((len as usize).min(r.bits.remaining()));",
    "                    let mut vec = Vec::with_capacity(len as usize);",
    "part of the original defect D10: a corrupted length determinant of a SEQUENCE OF with a huge SIZE bound reserves gigabytes from a few input bytes (oracle O3 / process abort)")
mut("S21-null-not-counted-as-field", ["C01"], "src/rw/uper.rs",
    "        // no content bits, but it still is a field of the enclosing sequence\n        self.write_bit_field_entry(false, true)?;\n        self.with_buffer(|_w| Ok(()))",
    "        Ok(())",
    "the defect found by the generated zoo (writer side only: the reader still counts the NULL): needs an extensible SEQUENCE with a mandatory NULL in the root and an addition")

mut("S22-set-extension-additions-sorted-by-tag", ["C05"], "asn1rs-model/src/generate/walker.rs",
    "            (a.0, (!a.0).then_some(&a.1.tag)).cmp(&(b.0, (!b.0).then_some(&b.1.tag)))",
    "            (a.0, &a.1.tag).cmp(&(b.0, &b.1.tag))",
    "compiler side; the defect found by the generated version chains: only visible across versions of a SET with explicit tags whose later addition has a smaller tag")
mut("S23-tag-resolution-without-memo", ["C14"], "asn1rs-model/src/asn/tag_resolver.rs",
    "        if let Some(tag) = resolved.borrow().get(&key) {\n            return *tag;\n        }",
    "        if let Some(tag) = resolved.borrow().get(&key).filter(|_| false) {\n            return *tag;\n        }",
    "the defect a seeding sub-agent pointed out: exponential tag resolution for diamond shaped references; needs the corpus module diamond.asn1 (a hang under the watchdog)")
mut("S24-copy-bounds-check-unchecked-addition", ["C11"], "src/protocol/per/unaligned/slice.rs",
    "    if len <= BYTE_LEN * 2 {\n        return bit_string_copy(src, src_bit_position, dst, dst_bit_position, len);\n    }\n\n    // checked: a length near usize::MAX must be an error as well, not an overflow\n    if dst_bit_position\n        .checked_add(len)\n        .map_or(true, |end| dst.len() * BYTE_LEN < end)\n    {",
    "    if len <= BYTE_LEN * 2 {\n        return bit_string_copy(src, src_bit_position, dst, dst_bit_position, len);\n    }\n\n    // checked: a length near usize::MAX must be an error as well, not an overflow\n    if dst.len() * BYTE_LEN < dst_bit_position.wrapping_add(len) {",
    "part of the defect repaired in c4b8db5: the bulk path's destination check wraps for a length near usize::MAX (index out of bounds in release, too)")
mut("S25-parser-nesting-limit-removed", ["C14"], "asn1rs-model/src/asn/model.rs",
    "        let _nesting = TypeNestingGuard::enter(iter)?;\n",
    "",
    "the defect repaired in 2ad4dd1 (recursive descent without a nesting limit): needs the T-NEST classes of 5 000 / 40 000 levels (stack overflow of the worker process)")

def sh(cmd, cwd=None, timeout=3600):
    p = subprocess.run(cmd, shell=True, cwd=cwd, stdout=subprocess.PIPE, stderr=subprocess.STDOUT, text=True, timeout=timeout)
    return p.returncode, p.stdout


def main():
    sel = sys.argv[1:]
    out_path = os.path.join(ROOT, "sensitivity", "results.json")
    os.makedirs(os.path.dirname(out_path), exist_ok=True)
    results = json.load(open(out_path)) if os.path.exists(out_path) else {}
    rc, st = sh("git status --porcelain", cwd=REPO)
    if st.strip():
        print("refusing: /repo has uncommitted changes:\n" + st)
        return 2
    for m in M:
        if sel and not any(s in m["name"] for s in sel):
            continue
        path = os.path.join(REPO, m["file"])
        src = open(path).read()
        if src.count(m["old"]) != 1:
            print(f"{m['name']}: pattern found {src.count(m['old'])} times - SKIPPED")
            results[m["name"]] = dict(status="pattern-not-found")
            continue
        t0 = time.time()
        try:
            open(path, "w").write(src.replace(m["old"], m["new"]))
            rc, diff = sh("git diff", cwd=REPO)
            os.makedirs(os.path.join(ROOT, "sensitivity", "patches"), exist_ok=True)
            open(os.path.join(ROOT, "sensitivity", "patches", m["name"] + ".diff"), "w").write(diff)
            rc_t, out_t = sh(os.path.join(ROOT, "tools", "baseline.sh"))
            suite = "pass" if rc_t == 0 else "FAIL"
            checks = {}
            for p in m["props"]:
                rc_c, out_c = sh(f"./check {p} quick", cwd=ROOT)
                sigs = [l for l in out_c.splitlines() if l.startswith("violation:") or l.lstrip().startswith("further:")]
                checks[p] = dict(exit=rc_c, detected=(rc_c == 1 and "VIOLATION property=" in out_c), signatures=[s[:220] for s in sigs[:4]], tail=out_c.strip().splitlines()[-1][:200] if out_c.strip() else "")
            results[m["name"]] = dict(status="ran", targets=m["props"], file=m["file"], note=m["note"], repo_suite=suite, suite_summary=out_t.strip().splitlines()[0] if out_t.strip() else "", checks=checks, wall_s=round(time.time() - t0))
            det = {p: c["detected"] for p, c in checks.items()}
            print(f"{m['name']}: repo suite {suite}; detected {det}  ({round(time.time() - t0)}s)", flush=True)
        finally:
            sh("git checkout -- .", cwd=REPO)
        json.dump(results, open(out_path, "w"), indent=1)
    return 0


if __name__ == "__main__":
    sys.exit(main())
